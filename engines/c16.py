"""C16 - exactly one server under every interleaving; close and disconnect end it.

Up to three caller threads plus the starter thread created by prepare() run the real supp/remote.py under the
deterministic kernel (pre-emption at every line, and at every opcode inside prepare/run/_threaded_run/_call/close);
process launch, connection and clock are fakes; the child "process" runs the real server.py main block."""
import os
import traceback

from sim import prng, ddmin
from sim.kernel import Kernel, RandomWalk, PCT, Replay, Scheduler, KernelAbort
from sim.fakes import World, quiet_logging

import supp.remote as remote
from supp.umsgpack import loads

PROPERTY = 'C16'
LEVEL = 'exploration'
BUDGET_S = {'quick': 110, 'thorough': 1700}
UNIT_TIMEOUT_S = 900
REMOTE_FILE = remote.__file__
STEP_CAP = 20000
OPCODE_FUNCS = ('prepare', 'run', '_threaded_run', '_call', 'close')

RULE = ('Seeded part: one evaluation = one simulated run: 1-3 caller threads with seeded scripts over prepare()/eval-call/think, '
        'then a quiescent epilogue (close(), wait for server exit, optional second session ended by close() or by the '
        'client vanishing at a seeded instant), under a seeded scheduler (random walk with p in {.02,.1,.3,.5}, '
        'access-biased random walk, PCT depth 1-3) at line or opcode granularity, with seeded child start-up delay '
        '(0-2 simulated seconds) and, in a separate weak-oracle configuration, launch failures. A run is non-trivial '
        'if at least one scheduling decision deviated from the default policy or a fault fired; distinct = distinct '
        'event-log digests (every kernel step: thread, yield label, thread chosen, simulated time) among those. Systematic part: '
        'for seven small workloads (1-3 threads over prepare()/first call) every schedule with at most 1 (all), 2 (quick: line '
        'granularity all, opcode three workloads) or 3 (thorough, line granularity) deviations from the default policy is run - '
        'complete within that bound.')
ASSUMPTIONS = [
    'kernel and fakes (sim/kernel.py, sim/fakes.py) model threads, lock, clock, Popen, Listener/Client/Connection faithfully '
    '(message-atomic FIFO connection; validated against multiprocessing.Pipe by tools/stubfidelity.py)',
    'pre-emption points are source lines of supp/remote.py and, in prepare/run/_threaded_run/_call/close, bytecode '
    'instructions; races inside C code called from one instruction are not explored',
    'close() is issued only at quiescent points (no starter running, no call in flight)',
    'schedules are sampled, not enumerated',
]
REAL = ['supp/remote.py Environment (all methods, unmodified)', 'supp/server.py module body incl. __main__ block and Server.run',
        'supp/umsgpack.py']
STUB = ['threading.Thread/Lock -> SimThread/SimLock', 'time.time/sleep -> discrete-event clock', 'subprocess.Popen -> FakePopen',
        'multiprocessing.connection Client/Listener/arbitrary_address/Connection -> in-memory fakes']


def _lines_of(func):
    return set(l for _, _, l in func.__code__.co_lines() if l is not None)


REMOTE_CODES = [f.__code__ for f in vars(remote.Environment).values() if hasattr(f, '__code__')]
RUN_LINES = _lines_of(remote.Environment.run) if hasattr(remote.Environment, 'run') else set()
CLEAR_LINES = set()
import dis as _dis
for _f in vars(remote.Environment).values():
    # every place outside prepare() that assigns the starter handle (the starter clearing it, in the pinned code)
    if hasattr(_f, '__code__') and _f.__name__ not in ('prepare', '__init__'):
        for _ins in _dis.get_instructions(_f):
            if _ins.opname == 'STORE_ATTR' and _ins.argval == 'prepare_thread' and _ins.positions:
                CLEAR_LINES.add(_ins.positions.lineno)


def worker_init():
    quiet_logging()


# ---------------------------------------------------------------- case generation

def gen_case(seed, i, mode):
    r = prng.rng('c16', seed, mode, i)
    ncallers = r.choice((1, 2, 2, 3, 3))
    callers = []
    tok = 0
    for c in range(ncallers):
        script = []
        n = r.choice((1, 2, 2, 3, 4, 6))
        for _ in range(n):
            x = r.random()
            if x < 0.35:
                script.append(['prepare'])
            elif x < 0.75:
                script.append(['call', 't%d_%d' % (c, tok)])
                tok += 1
            else:
                script.append(['think', r.choice((1, 3, 10, 30, 80))])
        callers.append(script)
    closer = r.random() < 0.15
    if closer:
        # close() interleaved with pre-starts: only caller 0 calls or closes, the others only pre-start, so that no
        # call can be in flight when the connection is closed (what close() must do to a call in flight is not stated)
        callers = [[op for op in s if op[0] != 'call'] or [['prepare']] for s in callers]
        script = []
        for _ in range(r.choice((2, 3, 4, 5))):
            x = r.random()
            if x < 0.3:
                script.append(['prepare'])
            elif x < 0.6:
                script.append(['close'])
            elif x < 0.85:
                script.append(['call', 't0_%d' % tok])
                tok += 1
            else:
                script.append(['think', r.choice((1, 3, 10, 30))])
        callers[0] = script
    if not closer and not any(op[0] == 'call' for s in callers for op in s) and r.random() < 0.8:
        callers[r.randrange(ncallers)].append(['call', 't9_%d' % tok])
    gran = r.choice(('line', 'opcode', 'opcode'))
    kind = r.choice(('random', 'random', 'access', 'pct'))
    if kind == 'random':
        sched = {'kind': 'random', 'seed': r.getrandbits(48), 'p': r.choice((0.02, 0.1, 0.3, 0.5))}
    elif kind == 'access':
        sched = {'kind': 'random', 'seed': r.getrandbits(48), 'p': r.choice((0.02, 0.1)), 'p_access': 0.7}
    else:
        sched = {'kind': 'pct', 'seed': r.getrandbits(48), 'depth': r.choice((1, 2, 3)),
                 'horizon': r.choice((150, 400, 1200)) * (3 if gran == 'opcode' else 1)}
    delays = [r.choice((0.0, 0.0, 0.1, 0.35, 0.7, 1.3, 2.0)) for _ in range(3)]
    session2 = r.choice(('none', 'close', 'close', 'vanish', 'vanish'))
    case = {
        'callers': callers, 'main_prepare': r.random() < 0.3, 'gran': gran, 'sched': sched,
        'launch_delays': delays, 'session2': session2, 'analyse': r.random() < 0.25,
        'vanish_at': r.choice(('idle', 'after_send', 'in_request', 'after_reply')),
        'faults': {}, 'closer': closer, 'exit_in_prestart': r.random() < 0.06,
        'connect_delays': [r.choice((0, 0, 0, 0, 3, 6, 12))],
        # the editor's "restart server": the client is used again right after close(), while the old server
        # process may still be on its way out
        'session2_at_once': r.random() < 0.5,
        # a later call in the second session (whatever close() left running in the background has fired by then)
        'session2_again': r.choice((0, 0, 0.5, 3.0, 6.0, 30.0)),
    }
    if not closer and not case['exit_in_prestart'] and mode != 'launchfail' and r.random() < 0.15:
        # an editor with several projects: other Environments of the same process pre-start and use their own servers
        # at the same time (each of them, too, gets exactly one)
        case['neighbours'] = r.choice((1, 2, 3, 4, 5))
    if mode == 'launchfail':
        f = {}
        x = r.random()
        if x < 0.5:
            f['popen_fail'] = [0] if r.random() < 0.7 else [0, 1]
        else:
            f['never_listen'] = [0]
        case['faults'] = f
        case['exit_in_prestart'] = False
        case['session2'] = 'none'
    return case


# ---- systematic exploration: every schedule with at most B deviations from the default policy ------------------
# (a deviation is a pre-emption of the running thread or a non-default choice among the runnable threads when the
# running thread blocks).  Complete for the listed small workloads within the bound; D3-like races need one deviation.

PB_WORKLOADS = [
    {'callers': [[['call', 'a0']]], 'main_prepare': True},
    {'callers': [[['prepare'], ['call', 'a0']], [['call', 'b0']]], 'main_prepare': False},
    {'callers': [[['call', 'a0']], [['call', 'b0']]], 'main_prepare': False},
    {'callers': [[['prepare']], [['prepare'], ['call', 'b0']]], 'main_prepare': False},
    {'callers': [[['call', 'a0']], [['prepare']]], 'main_prepare': False},
    {'callers': [[['call', 'a0']], [['call', 'b0']], [['prepare']]], 'main_prepare': False},
    {'callers': [[['prepare'], ['prepare']], [['call', 'b0'], ['call', 'b1']]], 'main_prepare': True},
]


def pb_base(w, gran, delay, session2):
    wl = PB_WORKLOADS[w]
    return {'callers': wl['callers'], 'main_prepare': wl['main_prepare'], 'gran': gran,
            'launch_delays': [delay, 0.0, 0.0], 'session2': session2, 'vanish_at': 'after_send', 'faults': {},
            'sched': {'kind': 'replay', 'deviations': []}}


def pb_choices(case):
    """Run `case` and return (result, list of (step, tid) alternatives met after its last deviation)."""
    res = run_case(case, record_choices=True)
    last = max([d[0] for d in case['sched']['deviations']] or [0])
    alts = [(step, tid) for step, tids in res['choices'] if step > last for tid in tids]
    return res, alts


def plan_pb(tier, scale):
    units = []
    nw = len(PB_WORKLOADS)
    for w in range(nw):
        for gran in ('line', 'opcode'):
            units.append({'kind': 'pb', 'w': w, 'gran': gran, 'delay': 0.35, 'session2': 'close', 'bound': 1})
    for w in (0, 2):
        # the same with the client used again at once after close(), the old server still exiting
        units.append({'kind': 'pb', 'w': w, 'gran': 'line', 'delay': 0.0, 'session2': 'close', 'bound': 1, 'at_once': True})
    # deeper bounds are sharded by the index of the first deviation
    deep = [(w, 'line', 2, 4) for w in range(nw)] + [(w, 'opcode', 2, 16) for w in (0, 2, 4)]
    if tier == 'thorough':
        deep = [(w, 'line', 3, 32) for w in range(nw)] + [(w, 'opcode', 2, 16) for w in range(nw)]
    for w, gran, bound, shards in deep:
        for k in range(shards):
            units.append({'kind': 'pb', 'w': w, 'gran': gran, 'delay': 0.0, 'session2': 'none', 'bound': bound,
                          'shard': k, 'shards': shards})
    return units


def run_pb_unit(unit):
    base = pb_base(unit['w'], unit['gran'], unit['delay'], unit['session2'])
    if unit.get('at_once'):
        base['session2_at_once'] = True
    stats = {'runs': 0, 'steps': 0}
    vios = []
    keys = set()
    log = prng.Log()

    def explore(devs, depth, top_filter=None):
        case = dict(base, sched={'kind': 'replay', 'deviations': [list(d) for d in devs]})
        if depth < unit['bound']:
            res, alts = pb_choices(case)
        else:
            res, alts = run_case(case), []
        stats['runs'] += 1
        stats['steps'] += res['steps']
        keys.add(int(res['digest'], 16) & 0xffffffffffff)
        log.add(case['sched']['deviations'], res['digest'])
        if res['violations'] and len(vios) < 3:
            vios.append({'sig': res['violations'][0]['sig'], 'case': case, 'detail': res['violations'][0]['detail']})
        if top_filter is not None:
            stats['top'] = len(alts)
            alts = alts[top_filter[0]::top_filter[1]]
        for d in alts:
            explore(devs + [d], depth + 1)
    explore([], 0, (unit.get('shard', 0), unit.get('shards', 1)))
    return {'evals': stats['runs'], 'keys': sorted(keys), 'faults': {}, 'probes': {}, 'violations': vios, 'samples': [],
            'digest': log.digest(), 'steps': stats['steps'], 'sim_s': 0.0,
            'extra': {'pb_schedules_bound_%d' % unit['bound']: stats['runs'],
                      'max_pb_choice_points_on_default_schedule': stats.get('top', 0)}}


def plan(tier, seed, scale=1.0):
    n = int((48000 if tier == 'quick' else 2400000) * scale)
    nfail = int((4000 if tier == 'quick' else 120000) * scale)
    per = 400 if tier == 'quick' else 4000
    units = []
    for i in range(0, n, per):
        units.append({'kind': 'runs', 'mode': 'main', 'seed': seed, 'first': i, 'count': min(per, n - i)})
    for i in range(0, nfail, per):
        units.append({'kind': 'runs', 'mode': 'launchfail', 'seed': seed, 'first': i, 'count': min(per, nfail - i)})
    pb = plan_pb(tier, scale)
    # interleave the systematic units with the seeded ones
    out = []
    while units or pb:
        if pb:
            out.append(pb.pop(0))
        out.extend(units[:3])
        del units[:3]
    return out


def selftest_units(tier, seed):
    return ([{'kind': 'runs', 'mode': 'main', 'seed': seed, 'first': i, 'count': 1} for i in range(60)] +
            [{'kind': 'runs', 'mode': 'launchfail', 'seed': seed, 'first': i, 'count': 1} for i in range(20)] +
            [{'kind': 'pb', 'w': 0, 'gran': 'line', 'delay': 0.0, 'session2': 'none', 'bound': 1},
             {'kind': 'pb', 'w': 3, 'gran': 'opcode', 'delay': 0.35, 'session2': 'close', 'bound': 1}])


# ---------------------------------------------------------------- one simulated run

def make_sched(spec):
    k = spec['kind']
    if k == 'random':
        return RandomWalk(prng.rng('sched', spec['seed']), spec['p'], spec.get('p_access'))
    if k == 'pct':
        return PCT(prng.rng('sched', spec['seed']), spec['depth'], spec['horizon'])
    if k == 'replay':
        return Replay(spec['deviations'])
    return Scheduler()


def where_in_remote(exc):
    name = '?'
    tb = exc.__traceback__
    while tb is not None:
        if tb.tb_frame.f_code.co_filename == REMOTE_FILE:
            name = tb.tb_frame.f_code.co_name
        tb = tb.tb_next
    return name


class Run(object):
    def __init__(self, case, keep_events=0):
        self.case = case
        self.vios = []
        self.kernel = Kernel(make_sched(case['sched']), step_cap=STEP_CAP, time_cap=900.0,
                             trace_file=REMOTE_FILE,
                             opcode_funcs=OPCODE_FUNCS if case['gran'] == 'opcode' else (),
                             keep_events=keep_events)
        f = case.get('faults') or {}
        self.world = World(self.kernel, os.path.dirname(os.path.dirname(REMOTE_FILE)),
                           launch_delays=case['launch_delays'],
                           popen_failures=f.get('popen_fail', ()), never_listen=f.get('never_listen', ()))
        self.weak = bool(f)
        self.world.connect_delays = list(case.get('connect_delays') or [])
        self.closes_sent = 0
        self.sent = []
        self.answered = []
        self.op_log = []
        self.kernel.probe_hooks.append(self.race_probe)
        self._starter_cleared_seen = False

    def vio(self, sig, detail):
        self.vios.append({'sig': sig, 'detail': detail})

    # probe: the starter clears its handle while a caller is inside run() (the window of the join race)
    def race_probe(self, kernel, th, label):
        if label[0] == 'line' and label[1] in CLEAR_LINES and th.name == 'starter':
            for t in kernel.threads:
                ll = t.last_label
                if t is not th and not t.finished and ll and (
                        (ll[0] == 'line' and ll[1] in RUN_LINES) or (ll[0] in ('acc', 'op') and ll[1] == 'run')):
                    self.world.probe('starter_clears_handle_while_caller_inside_run')
                    break

    def do_op(self, who, op):
        env = self.env
        k = self.kernel
        kind = op[0]
        try:
            if kind == 'prepare':
                env.prepare()
                res = None
            elif kind == 'call':
                self.sent.append(op[1])
                res = env.eval('return %r' % op[1])
                self.answered.append(res)
                if res != op[1]:
                    # two callers share one connection without a lock of their own: a caller can be handed the
                    # reply to the other caller's request.  The property does not speak about pairing between
                    # concurrent callers, so this is counted, not judged.
                    self.world.probe('reply_delivered_to_other_caller')
            elif kind == 'think':
                for _ in range(op[1]):
                    k.yield_point(('think',))
                res = None
            elif kind == 'close':
                env.close()
                res = None
            elif kind == 'analyse':
                root = os.path.join(os.environ.get('VERIF_SCRATCH', '/tmp'), 'vsim-c16-none')
                env.configure({'sources': [root]})
                res = env.assist('import json\njson.\n', (2, 5), os.path.join(root, 'zqx.py'))
                if not (isinstance(res, list) and len(res) == 2 and 'dumps' in res[1]):
                    raise AssertionError('unexpected assist reply %r' % (res,))
                res = None
            self.op_log.append((who, kind, 'ok', res if isinstance(res, str) else None))
            return True, res
        except KernelAbort:
            raise
        except Exception as e:
            where = where_in_remote(e)
            self.op_log.append((who, kind, type(e).__name__, where))
            return False, (e, where, traceback.format_exc())

    def caller(self, idx, script):
        def body():
            for op in script:
                ok, res = self.do_op('caller%d' % idx, op)
                if not ok and not self.weak:
                    e, where, tb = res
                    self.vio('C16/exception/%s/%s:%s' % (op[0], type(e).__name__, where),
                             'caller%d: %s raised %r\n%s' % (idx, op, e, tb[-1500:]))
        return body

    def wait_quiescent(self, threads, what):
        k = self.kernel
        ok = k.block(lambda: all(t.finished for t in threads) and all(t.finished for t in self.world.starters),
                     120.0, ('harness', 'wait-' + what))
        if not ok:
            stuck = [(t.name, t.wait_label or t.last_label) for t in list(threads) + self.world.starters if not t.finished]
            self.vio('C16/liveness/%s-not-finished' % what,
                     'after 120 simulated seconds still running: %r' % (stuck,))
        return ok

    def live_procs(self):
        return [p for p in self.world.procs if p.returncode is None]

    def my_procs(self):
        """Servers launched by the Environment under test (neighbour Environments use another executable name)."""
        return [p for p in self.world.procs if p.args[0] == 'python-sim']

    def neighbour(self, j):
        def body():
            other = remote.Environment(executable='python-other%d' % j)
            tok = 'n%d' % j
            try:
                other.prepare()
                for _ in range(3 * j):
                    self.kernel.yield_point(('think',))
                res = other.eval('return %r' % tok)
                if res != tok:
                    self.vio('C16/answers/neighbour', 'call on another Environment returned %r' % (res,))
                other.close()
                self.world.count('neighbour_environment_session')
            except KernelAbort:
                raise
            except Exception as e:
                self.vio('C16/exception/neighbour/%s:%s' % (type(e).__name__, where_in_remote(e)), traceback.format_exc()[-1500:])
        return body

    def exit_during_prestart(self):
        """The client process ends while a pre-start may still be in flight: its main thread returns right after
        prepare(); the interpreter waits for non-daemon threads, abandons daemon threads, and every connection of
        the process disappears.  Whatever server was launched has to end on its own."""
        case = self.case
        k = self.kernel
        w = self.world
        self.env = env = remote.Environment(executable='python-sim')

        def client_main():
            for op in case['callers'][0][:2]:
                if op[0] in ('prepare', 'think'):
                    self.do_op('client-main', op)
            self.do_op('client-main', ['prepare'])
        t = k.spawn(client_main, 'client-main', group='clientx', traced=True)
        k.block(lambda: t.finished, 60.0, ('harness', 'wait-client-main'))
        mine = lambda: [x for x in k.threads if x.group == 'clientx' and not x.finished and not x.dead]
        k.block(lambda: not [x for x in mine() if not x.daemon], 60.0, ('harness', 'wait-non-daemon-threads'))
        if [x for x in mine() if not x.daemon]:
            self.vio('C16/liveness/client-exit-hangs', 'a non-daemon client thread is still running 60 simulated seconds after main returned')
        abandoned = len(mine())
        k.kill_group('clientx')
        for c in w.client_conns:
            c.is_closed = True
        w.count('client_exit_during_prestart')
        if abandoned:
            w.probe('daemon_threads_abandoned_at_exit', abandoned)
        gone = k.block(lambda: not self.live_procs(), 8.0, ('harness', 'wait-exit-after-client-exit'))
        if not gone:
            self.vio('C16/exit/server-still-running',
                     'the client process has exited (prepare() was the last thing it did) but a server it launched is still '
                     'running 8 simulated seconds later')

    def main(self):
        case = self.case
        k = self.kernel
        w = self.world
        if case.get('exit_in_prestart'):
            return self.exit_during_prestart()
        self.env = env = remote.Environment(executable='python-sim')
        callers = []
        neighbours = []
        for j in range(case.get('neighbours') or 0):
            neighbours.append(k.spawn(self.neighbour(j), 'neighbour%d' % j, group='client', traced=True))
        if case.get('main_prepare'):
            ok, res = self.do_op('main', ['prepare'])
            if not ok and not self.weak:
                e, where, tb = res
                self.vio('C16/exception/prepare/%s:%s' % (type(e).__name__, where), tb[-1500:])
        for i, script in enumerate(case['callers']):
            callers.append(k.spawn(self.caller(i, script), 'caller%d' % i, group='client', traced=True))
        if not self.wait_quiescent(callers + neighbours, 'callers'):
            return
        for t in callers + neighbours:
            if t.exc is not None:
                self.vio('C16/harness/caller-crashed', t.exc_text or repr(t.exc))
        used = bool(case.get('main_prepare')) or any(op[0] in ('prepare', 'call') for s in case['callers'] for op in s)
        ncalls = len(self.sent)

        if self.weak:
            self.weak_epilogue()
            return

        # ---- session 1 oracle
        for j in range(case.get('neighbours') or 0):
            n = len([p for p in w.procs if p.args[0] == 'python-other%d' % j])
            if n != 1:
                self.vio('C16/launch-count/neighbour/%d' % n, 'another Environment of the process (prepare, call, close) launched %d servers' % n)
        launches = len(self.my_procs())
        if case.get('closer'):
            # caller 0 may have ended sessions itself: every close() that found a connection allows one more launch
            closes = sum(1 for c in w.client_conns if c.is_closed)
            if launches > closes + 1:
                self.vio('C16/launch-count/closer/%d-launches-%d-closes' % (launches, closes),
                         '%d server launches although only %d connections were closed (callers=%r)' % (
                             launches, closes, case['callers']))
        elif launches != (1 if used else 0):
            self.vio('C16/launch-count/session1/%d' % launches,
                     '%d server launches for one session (callers=%r)' % (launches, case['callers']))
        for st in w.starters:
            if st.exc is not None:
                w.probe('starter_died_with_exception')
                self.vio('C16/exception/starter/%s:%s' % (type(st.exc).__name__, where_in_remote(st.exc)),
                         'the starter thread ended with an exception although no launch fault was injected\n' +
                         (st.exc_text or '')[-1500:])
        if sorted(self.answered) != sorted(self.sent):
            self.vio('C16/answers/mismatch',
                     'tokens sent %r, tokens answered %r' % (sorted(self.sent), sorted(self.answered)))
        if used and not hasattr(env, 'conn') and not case.get('closer'):
            self.vio('C16/session1/no-connection', 'a server was requested but the client has no connection')

        # ---- optionally a request that makes the server analyse (and cache) a module before the session ends
        if case.get('analyse') and used:
            ok, res = self.do_op('main', ['analyse'])
            if not ok:
                e, where, tb = res
                self.vio('C16/exception/analyse/%s:%s' % (type(e).__name__, where), tb[-1500:])

        # ---- close
        ok, res = self.do_op('main', ['close'])
        if not ok:
            e, where, tb = res
            self.vio('C16/exception/close/%s:%s' % (type(e).__name__, where), tb[-1500:])
        at_once = bool(case.get('session2_at_once')) and case.get('session2', 'none') != 'none'
        old_procs = self.my_procs()

        def old_servers_gone():
            gone = k.block(lambda: not any(p.alive for p in old_procs), 5.0, ('harness', 'wait-exit-after-close'))
            if not gone:
                self.vio('C16/close/server-still-running',
                         'server process still alive 5 simulated seconds after close()')
                for p in old_procs:
                    if p.alive:
                        p.kill()
        if used and not at_once:
            old_servers_gone()
        elif used and any(p.alive for p in old_procs):
            w.count('client_reused_while_old_server_exits')
        if hasattr(env, 'conn'):
            self.vio('C16/close/conn-kept', 'Environment still has a conn attribute after close()')
            try:
                del env.conn
            except AttributeError:
                pass

        # ---- optional second session
        s2 = case.get('session2', 'none')
        if s2 == 'none':
            return
        before = len(self.my_procs())
        vanish_at = case.get('vanish_at', 'idle') if s2 == 'vanish' else None
        state = {'armed': False, 'done': False}

        def vanish():
            if state['done']:
                return
            state['done'] = True
            w.count('client_vanished_' + vanish_at)
            for c in w.client_conns:
                c.is_closed = True
            k.kill_group('client2')

        if vanish_at in ('after_send', 'in_request', 'after_reply'):
            def on_send(conn, data):
                if not state['armed'] or state['done']:
                    return
                if vanish_at == 'after_send' and conn.name.startswith('c'):
                    vanish()
                    raise KernelAbort()
                if vanish_at == 'after_reply' and conn.name.startswith('s'):
                    vanish()
            w.on_send = on_send

        result = {}

        def second():
            state['armed'] = True
            tok = 'second'
            if vanish_at == 'in_request':
                # the request makes the server call back into the harness while it is inside the request
                self.in_request_cb = vanish
                src = 'import engines.c16 as e\ne.IN_REQUEST()\nreturn %r' % tok
            else:
                src = 'return %r' % tok
            try:
                result['value'] = env.eval(src)
                if case.get('session2_again') and vanish_at is None:
                    k.sleep(case['session2_again'], ('harness', 'think-in-session2'))
                    result['value2'] = env.eval("return 'second again'")
                    if result['value2'] != 'second again':
                        self.vio('C16/answers/session2-again', 'later call of the second session returned %r' % (result['value2'],))
            except KernelAbort:
                raise
            except Exception as e:
                result['exc'] = (e, where_in_remote(e), traceback.format_exc())

        global IN_REQUEST
        IN_REQUEST = lambda: self.in_request_cb()
        t2 = k.spawn(second, 'caller-s2', group='client2', traced=True)
        ok = k.block(lambda: t2.finished or t2.dead, 120.0, ('harness', 'wait-session2'))
        if not ok:
            self.vio('C16/liveness/session2-call-not-finished', 'second-session call still running after 120 simulated seconds: %r'
                     % ((t2.wait_label or t2.last_label),))
            return
        if used and at_once:
            # (not stricter than the property: the five seconds start here, after the second session's first call)
            old_servers_gone()
        launched = len(self.my_procs()) - before
        if launched != 1:
            self.vio('C16/launch-count/session2/%d' % launched, '%d launches for the session after close()' % launched)
        if not state['done']:
            if 'exc' in result:
                e, where, tb = result['exc']
                self.vio('C16/exception/call-after-close/%s:%s' % (type(e).__name__, where), tb[-1500:])
            elif result.get('value') != 'second':
                self.vio('C16/answers/session2', 'second session call returned %r' % (result.get('value'),))
        if s2 == 'close':
            ok, res = self.do_op('main', ['close'])
            if not ok:
                e, where, tb = res
                self.vio('C16/exception/close2/%s:%s' % (type(e).__name__, where), tb[-1500:])
            gone = k.block(lambda: not self.live_procs(), 5.0, ('harness', 'wait-exit-after-close2'))
            if not gone:
                self.vio('C16/close2/server-still-running', 'server alive 5 simulated seconds after the second close()')
        else:
            if vanish_at == 'idle':
                vanish()
            elif not state['done']:
                # the instant never came (e.g. no reply was sent): fall back to an idle disconnect
                vanish()
            gone = k.block(lambda: not self.live_procs(), 5.0, ('harness', 'wait-exit-after-vanish'))
            if not gone:
                self.vio('C16/vanish/%s/server-still-running' % vanish_at,
                         'server alive 5 simulated seconds after the client end of the connection disappeared (%s)' % vanish_at)

    def weak_epilogue(self):
        """Launch-failure configuration: nobody hangs, the handle is cleared, and once launches work
        again the next call is answered."""
        env = self.env
        k = self.kernel
        w = self.world
        if env.prepare_thread is not None:
            self.vio('C16/launchfail/handle-not-cleared', 'prepare_thread still set after all starters finished')
        for who, kind, outcome, extra in self.op_log:
            if kind == 'call' and outcome == 'ok' and extra not in self.sent:
                self.vio('C16/launchfail/wrong-answer', 'call returned %r' % (extra,))
            if outcome not in ('ok',) and extra != '_run':
                # a launch that fails may be reported to the caller - as the launch failure, raised where the launch
                # happens.  Any other exception is the handshake falling over its own state.
                self.vio('C16/launchfail/unexpected-exception/%s/%s:%s' % (kind, outcome, extra),
                         '%s: %s raised %s in %s() although only the launch itself failed' % (who, kind, outcome, extra))
        # faults stop now: every later launch succeeds
        w.popen_failures = set()
        w.never_listen = set()
        result = {}

        def final():
            try:
                result['value'] = env.eval('return "final"')
            except KernelAbort:
                raise
            except Exception as e:
                result['exc'] = (e, where_in_remote(e), traceback.format_exc())
        t = k.spawn(final, 'caller-final', group='client', traced=True)
        ok = k.block(lambda: t.finished, 120.0, ('harness', 'wait-final'))
        if not ok:
            self.vio('C16/launchfail/final-call-hangs', 'call after the faults stopped still running after 120 simulated seconds')
        elif 'exc' in result:
            e, where, tb = result['exc']
            self.vio('C16/launchfail/final-call-raised/%s:%s' % (type(e).__name__, where), tb[-1500:])
        elif result.get('value') != 'final':
            self.vio('C16/launchfail/final-call-wrong', 'returned %r' % (result.get('value'),))

    def execute(self):
        w = self.world
        k = self.kernel
        w.install()
        k.install_tracing(REMOTE_CODES)
        try:
            main = k.run(self.main, name='main', group='harness', traced=True)
        finally:
            k.remove_tracing()
            w.uninstall()
        if k.harness_error:
            raise RuntimeError('harness: ' + k.harness_error)
        reason = k.final_reason
        if main.exc is not None:
            raise RuntimeError('harness main thread crashed: ' + (main.exc_text or repr(main.exc)))
        if reason in ('deadlock', 'step-cap', 'time-cap'):
            stuck = [(t.name, t.wait_label or t.last_label) for t in k.threads if not t.finished and not t.dead]
            self.vio('C16/liveness/' + reason, 'kernel stopped the run: %s; threads: %r' % (reason, stuck))
        return self


IN_REQUEST = None


def run_case(case, keep_events=0, record_choices=False):
    run = Run(case, keep_events)
    if record_choices:
        run.kernel.choice_log = []
    r = run.execute()
    k = r.kernel
    w = r.world
    faults = {}
    for name in ('connect_refused', 'popen_failed', 'poll_timeout', 'send_to_closed_peer', 'eof_seen', 'slow_connect', 'timer_armed'):
        if w.counts.get(name):
            faults[name] = w.counts[name]
    for name, n in w.counts.items():
        if name.startswith('client_vanished_') or name in ('client_exit_during_prestart', 'neighbour_environment_session',
                                                            'client_reused_while_old_server_exits'):
            faults[name] = n
    if any(d > 0 for d in case['launch_delays'][:len(w.procs)]):
        faults['slow_child_startup'] = 1
    if (case.get('faults') or {}).get('never_listen') and w.procs:
        faults['child_never_listens'] = 1
    probes = dict(w.probes)
    if w.connect_refused >= 3:
        probes['connect_refused_ge_3'] = 1
    return {
        'violations': r.vios, 'digest': getattr(k, 'final_digest', k.log.digest()), 'steps': k.step,
        'sim_s': k.now, 'deviations': list(k.deviations), 'nondefault': k.nondefault, 'faults': faults,
        'probes': probes, 'diverged': k.diverged, 'switches': k.switches,
        'events': k.log.events, 'op_log': r.op_log, 'launches': len(w.procs), 'choices': k.choice_log or [],
    }


PROBE_NAMES = ['reply_delivered_to_other_caller', 'starter_clears_handle_while_caller_inside_run', 'join_waited_for_running_starter', 'lock_contended', 'two_waiters_on_lock', 'connect_refused_ge_3']


def run_unit(unit):
    if unit['kind'] == 'case':
        # corpus case: its workload under the recorded schedule (when it can still be followed) and under
        # 60 seeded random schedules
        base = dict(unit['case'])
        base.pop('origin', None)
        scheds = [base['sched']] + [
            {'kind': 'random', 'seed': prng.derive('corpus', unit.get('name'), j), 'p': (0.1, 0.3, 0.5)[j % 3],
             'p_access': 0.7 if j % 2 else None} for j in range(60)]
        vios = []
        steps = 0
        log = prng.Log()
        for sc in scheds:
            c = dict(base, sched=sc)
            res = run_case(c)
            steps += res['steps']
            log.add(res['digest'])
            if res['diverged']:
                continue
            if res['violations'] and len(vios) < 2:
                explicit = dict(c, sched={'kind': 'replay', 'deviations': [list(d) for d in res['deviations']]})
                vios.append({'sig': res['violations'][0]['sig'], 'case': explicit, 'detail': res['violations'][0]['detail']})
        return {'evals': len(scheds), 'keys': [], 'faults': {}, 'probes': {}, 'violations': vios,
                'digest': log.digest(), 'steps': steps, 'sim_s': 0.0}
    if unit['kind'] == 'pb':
        return run_pb_unit(unit)
    keys = set()
    faults = {}
    probes = {n: 0 for n in PROBE_NAMES}
    vios = []
    samples = []
    steps = 0
    sim_s = 0.0
    log = prng.Log()
    sched_kinds = {}
    max_steps = 0
    for i in range(unit['first'], unit['first'] + unit['count']):
        case = gen_case(unit['seed'], i, unit['mode'])
        res = run_case(case)
        log.add(i, res['digest'])
        steps += res['steps']
        max_steps = max(max_steps, res['steps'])
        sim_s += res['sim_s']
        for kf, n in res['faults'].items():
            faults[kf] = faults.get(kf, 0) + n
        for kp, n in res['probes'].items():
            probes[kp] = probes.get(kp, 0) + n
        sk = '%s/%s' % (case['sched']['kind'] + ('-access' if case['sched'].get('p_access') else ''), case['gran'])
        sched_kinds[sk] = sched_kinds.get(sk, 0) + 1
        if res['nondefault'] or res['faults']:
            keys.add(int(res['digest'], 16) & 0xffffffffffff)
        if res['violations'] and len(vios) < 4:
            explicit = dict(case, sched={'kind': 'replay', 'deviations': [list(d) for d in res['deviations']]},
                            origin={'seed': unit['seed'], 'mode': unit['mode'], 'run': i, 'sched': case['sched']})
            for v in res['violations'][:2]:
                vios.append({'sig': v['sig'], 'case': explicit, 'detail': v['detail']})
        if i == unit['first'] and unit['first'] == 0:
            samples.append({'run': i, 'mode': unit['mode'], 'case': case, 'steps': res['steps'],
                            'simulated_seconds': round(res['sim_s'], 3), 'nondefault_decisions': res['nondefault'],
                            'launches': res['launches'], 'ops': res['op_log'][:12]})
    return {'evals': unit['count'], 'keys': sorted(keys), 'faults': faults, 'probes': probes, 'violations': vios,
            'samples': samples, 'digest': log.digest(), 'steps': steps, 'sim_s': sim_s,
            'extra': dict({'sched_' + k: n for k, n in sched_kinds.items()}, max_steps_in_one_run=max_steps)}


# ---------------------------------------------------------------- replay / shrink

def replay_case(case):
    res = run_case(case)
    if res['diverged']:
        return []
    return res['violations']


def _has(case, sig):
    try:
        res = run_case(case)
    except Exception:
        return False
    return (not res['diverged']) and any(v['sig'] == sig for v in res['violations'])


def _find(case, sig, tries, salt):
    """Does `case` (its workload and faults) violate `sig` under its own schedule, the default schedule, or
    one of `tries` seeded random schedules?  Returns the case with an explicit schedule, or None."""
    cands = [case['sched'], {'kind': 'replay', 'deviations': []}]
    for i in range(tries):
        cands.append({'kind': 'random', 'seed': prng.derive('shrink', salt, i), 'p': (0.1, 0.3, 0.02)[i % 3],
                      'p_access': 0.7 if i % 2 else None})
    for sc in cands:
        c = dict(case, sched=sc)
        try:
            res = run_case(c)
        except Exception:
            continue
        if not res['diverged'] and any(v['sig'] == sig for v in res['violations']):
            return dict(case, sched={'kind': 'replay', 'deviations': [list(d) for d in res['deviations']]})
    return None


def shrink(case, sig):
    """Minimise workload, faults and schedule while the same signature persists.  Removing an operation shifts
    every later step, so the schedule is searched again for each smaller workload."""
    import copy
    case = copy.deepcopy(case)
    case.pop('origin', None)
    if not _has(case, sig):
        return case
    budget = ddmin.Budget(120)
    state = {'best': case, 'n': 0}
    # schedule-independent bugs need no search at all
    tries = 0 if _has(dict(case, sched={'kind': 'replay', 'deviations': []}), sig) else 150

    def test(c):
        state['n'] += 1
        found = _find(c, sig, tries, state['n'])
        if found is not None:
            state['found'] = found
            return True
        return False

    def adopt(c):
        # keep the schedule that made the smaller workload fail
        c['sched'] = state['found']['sched']
        return c

    # 1. drop whole callers, then operations inside callers (greedy single removals, largest first)
    changed = True
    while changed and budget.left > 0:
        changed = False
        for i in range(len(case['callers'])):
            if len(case['callers']) > 1 and budget.take():
                c = copy.deepcopy(case)
                del c['callers'][i]
                if test(c):
                    case = adopt(c)
                    changed = True
                    break
        if changed:
            continue
        for i, script in enumerate(case['callers']):
            for j in range(len(script)):
                if not budget.take():
                    break
                c = copy.deepcopy(case)
                del c['callers'][i][j]
                if test(c):
                    case = adopt(c)
                    changed = True
                    break
            if changed:
                break
    # 2. simplify scalar knobs
    for key, val in (('session2', 'none'), ('main_prepare', False), ('launch_delays', [0.0, 0.0, 0.0]), ('gran', 'line')):
        if case.get(key) != val and budget.take():
            c = copy.deepcopy(case)
            c[key] = val
            if test(c):
                case = adopt(c)
    for s_i, s in enumerate(case['callers']):
        for o_i, op in enumerate(s):
            if op[0] == 'think' and op[1] > 1 and budget.take():
                c = copy.deepcopy(case)
                c['callers'][s_i][o_i][1] = 1
                if test(c):
                    case = adopt(c)
    # 3. schedule deviations (exact replays, cheap)
    case = ddmin.shrink_fields(case, [('sched', 'deviations')], lambda c: _has(c, sig), ddmin.Budget(400))
    return case
