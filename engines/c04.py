"""C04 - answers do not depend on which positions were queried before.

History engine.  The "system" is an analysis state that outlives a query: (A) one analysed module on which many
reads are queried - exactly what lint does internally - and (B) one Project whose cached module analyses are
consulted by many requests - exactly what the server does.  The schedule is the order of queries; the model is
"throw everything away": every answer is compared with the answer of a state created for that query alone."""
import ast
import copy
import itertools
import os
import shutil
import sys

from sim import prng, idhash, ddmin
from gen import flowprog as F
from gen import project as G

import supp.scope
import supp.linter
from supp import assistant, linter
from supp.evaluator import EvalCtx
from supp.nast import extract_scope
from supp.project import Project
from supp.util import Source, get_name_usages, np
from supp.name import MultiName, UndefinedName

PROPERTY = 'C04'
LEVEL = 'exploration'
BUDGET_S = {'quick': 170, 'thorough': 1700}
UNIT_TIMEOUT_S = 1500
REPO = os.path.dirname(os.path.dirname(os.path.abspath(supp.scope.__file__)))

RULE = ('Part A: one evaluation = one query history on one analysed module: operations names_at / evaluate / declarations '
        'on its read sites in a seeded or enumerated order (every permutation for modules with <= 6 reads; forward, '
        'reverse, inside-out and seeded permutations otherwise), plus the real whole-file lint pass with the alternatives '
        'lint saw for each read recorded; each answer is compared with the answer of a fresh analysis that is asked '
        'that one question only. Programs: generated (loop-rich flow programs) and real files (supp/*.py, seeded sample '
        'of the standard library). Part B: one evaluation = a history of 5-30 assist/location/lint requests with '
        'repeats on one long-lived Project (generated project on a scratch disk), each compared with the same request '
        'on a fresh Project. Non-trivial = the module has a loop or the history has >= 2 different queries; distinct = '
        'distinct (program, order) or (project, request sequence) digests.')
ASSUMPTIONS = [
    'answers are normalised to (class, name, binding position, file) tuples; lists of alternatives are compared as sets '
    '(their order is the subject of C17)',
    'the process-global memo builtin_scope.names is reset around every fresh evaluation',
    'both sides always run the same operation on the same text',
]
REAL = ['supp/scope.py, nast.py, name.py, evaluator.py, linter.py, assistant.py, project.py, module.py (unmodified)']
STUB = ['none: the only seam is the order of queries; identity hashes are keyed (sim/idhash.py) for reproducibility']

SCRATCH = None


def worker_init():
    global SCRATCH
    from sim.fakes import quiet_logging
    quiet_logging()
    SCRATCH = os.path.join(os.environ.get('VERIF_SCRATCH', '/tmp'), 'vsim-c04-%08d' % (os.getpid() % 10 ** 8))
    import atexit
    atexit.register(lambda: shutil.rmtree(SCRATCH, ignore_errors=True))


# ---------------------------------------------------------------- normalisation of answers

def n_name(n):
    if n is None:
        return 'MISSING'
    if type(n) is MultiName:
        return ('MULTI', tuple(sorted(set(n_name(a) for a in n.alt_names), key=repr)))
    if type(n) is UndefinedName:
        return ('UNDEF', str(n))
    return (type(n).__name__, getattr(n, 'name', None), getattr(n, 'declared_at', None) or getattr(n, 'location', None))


def n_obj(o, depth=0):
    if o is None:
        return None
    t = type(o).__name__
    if depth > 3:
        return (t,)
    if t == 'RuntimeName':
        return (t, o.name, type(o.value).__name__)
    if t == 'ClassObject':
        return (t, o.scope.name, o.scope.declared_at)
    if t == 'InstanceValue':
        return (t, o.cls.scope.name, o.cls.scope.declared_at)
    if t == 'FuncObject':
        return (t, o.scope.name, o.scope.declared_at)
    if t == 'SourceModule':
        return (t, o.name)
    if t == 'ImportedModule':
        return (t, getattr(o.module, '__name__', '?'))
    if t == 'CompositeValue':
        return (t, tuple(sorted((n_obj(v, depth + 1) for v in o.values), key=repr)))
    if t == 'AdditionalNameWrapper':
        return (t, n_obj(o.value, depth + 1), tuple(sorted(o._names)))
    if t == 'MultiValue':
        return (t, tuple(sorted((n_name(v) for v in o.values), key=repr)))
    return (t, getattr(o, 'name', None), getattr(o, 'declared_at', None))


def n_decl(lst):
    out = []
    for r in lst:
        if isinstance(r, list):
            out.append(('ALTS', tuple(sorted((_decl1(x) for x in r), key=repr))))
        else:
            out.append(_decl1(r))
    return tuple(out)


def _decl1(r):
    fn = None
    try:
        fn = r.filename
    except Exception:
        fn = '?'
    if isinstance(fn, str) and SCRATCH and fn.startswith(SCRATCH):
        fn = '<root>' + fn[len(SCRATCH):]
    return (type(r).__name__, getattr(r, 'name', None), getattr(r, 'declared_at', None), fn)


# ---------------------------------------------------------------- part A: one analysed module

class Analysis(object):
    def __init__(self, text, filename, project):
        self.source = Source(text, filename)
        self.scope = extract_scope(self.source, project)
        self.reads = [r for r in get_name_usages(self.source.tree) if hasattr(r, 'flow')]
        self.reads.sort(key=lambda r: (r.lineno, r.col_offset))
        self.project = project

    def query(self, op, i, ctx=None):
        node = self.reads[i]
        try:
            if op == 'names_at':
                return ('ok', n_name(node.flow.names_at(np(node)).get(node.id)))
            # a request creates its own context; helpers that walk a whole file (assistant.usages,
            # linter.check_names) share one - both are histories on one analysis
            ctx = ctx or EvalCtx(self.project)
            if op == 'evaluate':
                v = ctx.evaluate(node)
                try:
                    attrs = tuple(sorted(v.attr_list(ctx))) if v is not None else None
                except Exception as e:
                    attrs = ('EXC', type(e).__name__)
                if attrs is not None and len(attrs) > 40:
                    attrs = (len(attrs), prng.digest(list(attrs)))
                return ('ok', n_obj(v), attrs)
            if op == 'declarations':
                return ('ok', n_decl(ctx.declarations(node, [])))
        except RecursionError:
            return ('exc', 'RecursionError')
        except Exception as e:
            return ('exc', type(e).__name__, str(e)[:200])
        raise ValueError(op)


def fresh_project():
    supp.scope.builtin_scope.__dict__.pop('names', None)
    return Project([os.path.join(SCRATCH or '/tmp/vsim-c04-x', 'empty')])


def fresh_answers(text, filename, ops, nreads):
    """F[(op, i)] = answer of an analysis created for that one question."""
    out = {}
    for op in ops:
        for i in range(nreads):
            a = Analysis(text, filename, fresh_project())
            out[(op, i)] = a.query(op, i)
    return out


def orders_for(n, rng, exhaustive_limit=6, nrandom=6):
    idx = list(range(n))
    if n <= exhaustive_limit:
        return [list(p) for p in itertools.permutations(idx)], True
    out = [idx, idx[::-1]]
    mid = n // 2
    inside_out = []
    for d in range(n):
        for j in (mid - d, mid + d):
            if 0 <= j < n and j not in inside_out:
                inside_out.append(j)
    out.append(inside_out)
    out.append(inside_out[::-1])
    for _ in range(nrandom):
        p = idx[:]
        rng.shuffle(p)
        out.append(p)
    return out, False


def lint_view(text, filename, idents):
    """Run the real lint and record, for every names_at call it makes, what it saw for each identifier."""
    seen = []
    orig = supp.scope.Flow.names_at

    def spy(self, loc):
        m = orig(self, loc)
        seen.append((tuple(loc), {v: n_name(m.get(v)) for v in idents}))
        return m
    supp.scope.Flow.names_at = spy
    try:
        try:
            res = linter.lint(fresh_project(), text, filename)
            res = [tuple(r[:4]) for r in res]
        except RecursionError:
            res = 'RecursionError'
        except Exception as e:
            # a lint that raises is an answer too (totality is C08's subject, not this property's)
            res = 'raised ' + type(e).__name__
    finally:
        supp.scope.Flow.names_at = orig
    return seen, res


def check_text(text, filename, rng, stats, max_reads=40, ops=('names_at', 'evaluate', 'declarations'), orders=None,
               want_lint=True, stack_faults=None):
    """All part-A checks for one module text.  Returns violations [{'sig','detail','order','op'}]."""
    vios = []
    try:
        a0 = Analysis(text, filename, fresh_project())
    except (SyntaxError, RecursionError, ValueError):
        return vios
    n_all = len(a0.reads)
    if n_all == 0:
        return vios
    if orders is not None:
        # explicit histories (replay): absolute read indices
        sel = sorted(set(i for o in orders for i in o if 0 <= i < n_all))
        pos = {i: k for k, i in enumerate(sel)}
        orders = [[pos[i] for i in o if i in pos] for o in orders]
    elif n_all > max_reads:
        # a window of reads (seeded), all queried on the full module
        start = rng.randrange(0, n_all - max_reads + 1)
        sel = list(range(start, start + max_reads))
    else:
        sel = list(range(n_all))
    has_loop = any(isinstance(x, (ast.For, ast.While, ast.AsyncFor)) for x in ast.walk(a0.source.tree))
    fresh = {}
    for op in ops:
        for i in sel:
            a = Analysis(text, filename, fresh_project())
            fresh[(op, i)] = a.query(op, i)
            stats['evals'] += 1
    if orders is None:
        orders, exhaustive = orders_for(len(sel), rng)
        if exhaustive:
            stats['probes']['modules_with_all_permutations'] += 1
    for order in orders:
        for opmode in (ops if len(orders) <= 24 else (rng.choice(ops),)) + ('mixed', 'mixed-shared-ctx'):
            a = Analysis(text, filename, fresh_project())
            shared = EvalCtx(a.project) if opmode == 'mixed-shared-ctx' else None
            stats['evals'] += 1
            hist = []
            for k, j in enumerate(order):
                i = sel[j]
                op = opmode if not opmode.startswith('mixed') else ops[(k + j) % len(ops)]
                got = a.query(op, i, shared)
                hist.append((op, i))
                if got != fresh[(op, i)] and not _resource(got, fresh[(op, i)]):
                    node = a.reads[i]
                    vios.append({'sig': 'C04/query-order/%s' % op,
                                 'detail': 'read %r at %r: asked after %r it answers %r, asked first it answers %r' % (
                                     node.id, (node.lineno, node.col_offset), hist[:-1][-6:], got, fresh[(op, i)]),
                                 'order': [sel[x] for x in order[:k + 1]], 'op': opmode, 'read': i})
                    break
            if has_loop or len(order) >= 2:
                stats['keys'].add(prng.derive(prng.digest(text), tuple(order), opmode) & 0xffffffffffff)
            if vios:
                break
            # repeated identical query on the same state
            if order:
                i = sel[order[0]]
                op = ops[0]
                if a.query(op, i) != fresh[(op, i)]:
                    vios.append({'sig': 'C04/repeat/%s' % op, 'detail': 'read %d answers differently when asked again at the end' % i,
                                 'order': [sel[x] for x in order] + [i], 'op': op, 'read': i})
        if vios:
            break
    if stack_faults and not vios:
        # fault injection (see check_project): one query runs out of stack, all queries after it on the same analysis
        # must answer what a first query answers
        for vop, vj in stack_faults['victims']:
            if vj >= len(sel) or vop not in ops or vios:
                continue
            vi = sel[vj]
            for limit in stack_faults['limits']:
                a = Analysis(text, filename, fresh_project())
                first = with_stack_limit(limit, lambda: a.query(vop, vi))
                stats['evals'] += 1
                if first == fresh[(vop, vi)]:
                    break
                stats['faults']['stack_exhausted_inside_query'] = stats['faults'].get('stack_exhausted_inside_query', 0) + 1
                for op in ops:
                    for i in sel[:16]:
                        got = a.query(op, i)
                        stats['evals'] += 1
                        if got != fresh[(op, i)] and not _resource(got, fresh[(op, i)]):
                            node = a.reads[i]
                            vios.append({'sig': 'C04/after-stack-exhaustion/%s' % op,
                                         'detail': '%s of read %d ran out of stack %d frames in (answer %r); after it read %r at %r answers %r, asked first it answers %r' % (
                                             vop, vi, limit, first, node.id, (node.lineno, node.col_offset), got, fresh[(op, i)]),
                                         'order': None, 'op': op, 'read': i, 'stack': [vop, vj, limit]})
                            break
                    if vios:
                        break
                if vios:
                    break
    if want_lint and not vios:
        idents = sorted(set(r.id for r in a0.reads))
        seen, res = lint_view(text, filename, idents)
        stats['evals'] += 1
        bypos = {}
        for loc, view in seen:
            bypos.setdefault(loc, view)
        for i in sel:
            node = a0.reads[i]
            view = bypos.get((node.lineno, node.col_offset))
            exp = fresh.get(('names_at', i))
            if view is None or exp is None or exp[0] != 'ok':
                continue
            if view[node.id] != exp[1]:
                vios.append({'sig': 'C04/lint-vs-first-query/names_at',
                             'detail': 'read %r at %r: the whole-file lint pass saw %r, a first query sees %r' % (
                                 node.id, (node.lineno, node.col_offset), view[node.id], exp[1]),
                             'order': 'lint', 'op': 'lint', 'read': i})
                break
        stats['probes']['lint_passes_compared'] += 1
    if has_loop:
        stats['probes']['modules_with_loops'] += 1
    return vios


# ---------------------------------------------------------------- part B: one long-lived project

def ask(project, root, req):
    fn = os.path.join(root, req['file'])
    try:
        with project.check_changes():
            if req['kind'] == 'location':
                out = assistant.location(project, req['source'], tuple(req['position']), fn)
                out = _canon_loc(out, root)
            elif req['kind'] == 'assist':
                out = assistant.assist(project, req['source'], tuple(req['position']), fn)
                out = (out[0], tuple(out[1]))
            else:
                out = tuple(sorted(tuple(r[:4]) for r in linter.lint(project, req['source'], fn)))
        return ('ok', out)
    except RecursionError:
        return ('exc', 'RecursionError')
    except Exception as e:
        return ('exc', type(e).__name__, str(e).replace(root, '<root>')[:200])


def _canon_loc(out, root):
    res = []
    for x in out:
        if isinstance(x, list):
            res.append(('ALTS', tuple(sorted(((tuple(d['loc']), (d['file'] or '').replace(root, '<root>')) for d in x)))))
        else:
            res.append((tuple(x['loc']), (x['file'] or '').replace(root, '<root>')))
    return tuple(res)


def check_project(case, stats):
    vios = []
    root = os.path.join(SCRATCH, 'pb')
    shutil.rmtree(root, ignore_errors=True)
    os.makedirs(root)
    G.write_project(root, case['spec'])
    for link, target in case.get('links') or []:
        # the same directory is part of the project under two package paths
        os.makedirs(os.path.dirname(os.path.join(root, link)), exist_ok=True)
        with open(os.path.join(os.path.dirname(os.path.join(root, link)), '__init__.py'), 'w') as f:
            f.write('# package holding a link\n')
        os.symlink(os.path.join(root, target), os.path.join(root, link))
    try:
        idhash.install(case.get('idhash_seed', 0))
        reqs = case['requests']
        fresh = []
        for q in reqs:
            supp.scope.builtin_scope.__dict__.pop('names', None)
            fresh.append(ask(Project([root]), root, q))
            stats['evals'] += 1
        for order in case['orders']:
            supp.scope.builtin_scope.__dict__.pop('names', None)
            p = Project([root])
            hist = []
            for j in order:
                got = ask(p, root, reqs[j])
                hist.append(j)
                stats['evals'] += 1
                if got != fresh[j] and not _resource(got, fresh[j]):
                    vios.append({'sig': 'C04/request-order/%s' % reqs[j]['kind'],
                                 'detail': 'request %d (%s %r at %r) after requests %r answers %r; on a fresh project %r' % (
                                     j, reqs[j]['kind'], reqs[j]['source'], reqs[j]['position'], hist[:-1], _b(got), _b(fresh[j])),
                                 'order': list(hist)})
                    break
            stats['keys'].add(prng.derive(prng.digest(case['spec']), tuple(order)) & 0xffffffffffff)
            stats['probes']['project_histories'] += 1
            if vios:
                break
        sf = case.get('stack_faults')
        if sf and not vios:
            # fault injection: the stack runs out at some depth inside one request (the editor called from deep inside
            # its own code, a huge expression, a thread with a small stack).  That request may fail or answer less; every
            # request after it must answer what a fresh project answers.
            for j in sf['victims']:
                if j >= len(reqs) or vios:
                    continue
                for limit in sf['limits']:
                    supp.scope.builtin_scope.__dict__.pop('names', None)
                    p = Project([root])
                    first = with_stack_limit(limit, lambda: ask(p, root, reqs[j]))
                    stats['evals'] += 1
                    if first == fresh[j]:
                        break           # enough stack for this request: larger limits change nothing
                    stats['faults']['stack_exhausted_inside_request'] = stats['faults'].get('stack_exhausted_inside_request', 0) + 1
                    for k in ([j] + [x for x in sf['then'] if x != j and x < len(reqs)]):
                        got = ask(p, root, reqs[k])
                        stats['evals'] += 1
                        if got != fresh[k] and not _resource(got, fresh[k]):
                            vios.append({'sig': 'C04/after-stack-exhaustion/%s' % reqs[k]['kind'],
                                         'detail': 'request %d ran out of stack %d frames in (it answered %s); after it request %d (%s %r at %r) answers %r; on a fresh project %r' % (
                                             j, limit, _b(first)[:120], k, reqs[k]['kind'], reqs[k]['source'], reqs[k]['position'], _b(got), _b(fresh[k])),
                                         'order': None, 'stack': [j, limit, k]})
                            break
                    if vios:
                        break
    finally:
        idhash.uninstall()
        shutil.rmtree(root, ignore_errors=True)
    return vios


def _depth():
    f = sys._getframe()
    n = 0
    while f is not None:
        n += 1
        f = f.f_back
    return n


def with_stack_limit(frames, fn):
    """Run fn() with room for `frames` more Python frames than the caller has."""
    old = sys.getrecursionlimit()
    sys.setrecursionlimit(_depth() + frames)
    try:
        return fn()
    finally:
        sys.setrecursionlimit(old)


STACK_LIMITS = list(range(25, 120, 5)) + list(range(120, 420, 20))


def _resource(a, b):
    """An answer that is the interpreter's recursion limit is a resource effect (a warm memo makes the same evaluation
    shallower), not a statement about the position: such pairs are not compared."""
    return any(isinstance(x, (tuple, list)) and len(x) >= 2 and x[0] == 'exc' and x[1] == 'RecursionError' for x in (a, b))


def _b(x):
    r = repr(x)
    return r if len(r) < 500 else r[:500] + '...'


# ---------------------------------------------------------------- cases and units

def real_files(tier, seed):
    files = sorted(os.path.join(REPO, 'supp', f) for f in os.listdir(os.path.join(REPO, 'supp')) if f.endswith('.py'))
    files += sorted(os.path.join(REPO, 'tests', f) for f in os.listdir(os.path.join(REPO, 'tests')) if f.endswith('.py'))
    std = os.path.dirname(os.__file__)
    cand = sorted(f for f in os.listdir(std) if f.endswith('.py'))
    rng = prng.rng('c04-std', seed)
    rng.shuffle(cand)
    files += [os.path.join(std, f) for f in cand[:(6 if tier == 'quick' else 150)]]
    return files


def gen_case(seed, i, mode):
    r = prng.rng('c04', seed, mode, i)
    if mode in ('flow', 'small'):
        if mode == 'flow':
            prof = r.choice(('loops', 'loops', 'loops', 'mixed', 'multi', 'flat'))
            case = {'kind': 'flow', 'prog': F.gen_program(r, prof, size=r.choice((5, 8, 12, 20, 30, 45))), 'rng': r.getrandbits(32)}
        else:
            # small loop bodies: every permutation of their reads
            case = {'kind': 'flow', 'prog': small_loop_program(r), 'rng': r.getrandbits(32)}
        if r.random() < 0.15:
            case['stack_faults'] = {'victims': [[r.choice(('names_at', 'evaluate', 'declarations')), r.randrange(0, 12)] for _ in range(3)],
                                    'limits': list(range(6, 60, 3)) + list(range(60, 220, 12))}
        return case
    if mode == 'heavy':
        return heavy_case(r)
    if mode == 'shape':
        return shape_case(r)
    spec = G.gen_project(r)
    if r.random() < 0.2:
        # one module does not parse (somebody is in the middle of typing in it): every request that reaches it raises,
        # and must raise the same way whatever was asked before
        cands = [k for k, m in enumerate(spec['modules']) if not m.get('init')]
        k = r.choice(cands)
        m = spec['modules'][k]
        spec['modules'][k] = dict(m, items=m['items'] + [['raw', ['def zqbroken(:', '    pass']]])
    n = r.choice((5, 8, 12, 20, 30))
    base = [G.gen_request(r, spec, uid='q%d' % j) for j in range(r.choice((3, 4, 6, 8)))]
    reqs = [{'kind': q['kind'], 'source': q['source'], 'position': q['position'], 'file': q['file']} for q in base]
    reqs += G.cycle_requests(r, spec)[:8]
    reqs += G.relative_requests(r, spec)[:6]
    reqs += literal_requests(r)
    links = None
    if any(m['name'] == 'zqp' for m in spec['modules']) and r.random() < 0.35:
        links = [['zqw/zqp2', 'zqp']]
        lr = link_requests(spec)
        r.shuffle(lr)
        reqs += lr[:8]
    orders = []
    for _ in range(r.choice((2, 3, 4))):
        orders.append([r.randrange(len(reqs)) for _ in range(n)])
    orders.append(list(range(len(reqs))) + list(range(len(reqs))))
    orders.append(list(range(len(reqs)))[::-1])
    case = {'kind': 'project', 'spec': spec, 'requests': reqs, 'orders': orders, 'idhash_seed': r.getrandbits(31)}
    if r.random() < 0.15:
        case['stack_faults'] = {'victims': r.sample(range(len(reqs)), min(4, len(reqs))), 'limits': STACK_LIMITS,
                                'then': r.sample(range(len(reqs)), min(6, len(reqs)))}
    if links:
        case['links'] = links
    return case


def link_requests(spec):
    """Requests that reach the modules of package zqp under its own name and through the link zqw/zqp2 -> zqp
    (relative imports inside must resolve within the spelling they were reached by)."""
    table = G.exports(spec)
    out = []
    for m in spec['modules']:
        if not m['name'].startswith('zqp.') or m.get('init'):
            continue
        for name, kind in table.get(m['name'], [])[:4]:
            for sp in (m['name'], 'zqw.zqp2' + m['name'][3:]):
                out.append({'kind': 'location', 'source': 'from %s import %s\nzr = %s\n' % (sp, name, name),
                            'position': [2, 5 + len(name)], 'file': 'zqmain.py'})
                out.append({'kind': 'assist', 'source': 'import %s\n%s.%s.\n' % (sp, sp, name),
                            'position': [2, len(sp) + len(name) + 2], 'file': 'zqmain.py'})
    return out


def literal_requests(r):
    """Completion on names bound to literals that are equal but of different types (on one project their answers must
    not depend on which was looked at first)."""
    lits = r.sample(['1', '1.0', 'True', '0', '0.0', 'False', '-0.0', '1j', "''", "b''", "'a'", "b'a'", '()', '[]'], 4)
    out = []
    for k, lit in enumerate(lits):
        src = 'zl%d = %s\nzl%d.\n' % (k, lit, k)
        out.append({'kind': 'assist', 'source': src, 'position': [2, len('zl%d.' % k)], 'file': 'zqmain.py'})
    return out


def shape_case(r):
    """Project modules of particular shapes that the statement generator does not produce: long alias chains (an
    evaluation many levels deep that passes through a class and its bases), and attributes assigned to instances
    from outside the class, through names that are themselves bound through instance attributes."""
    kind = r.choice(('chain', 'attrassign', 'both'))
    lines = []
    asks = []         # expressions to complete on: (text, is_deep)
    if kind in ('chain', 'both'):
        n, m = [r.randrange(3, 64) if r.random() < 0.85 else r.choice((90, 130, 200)) for _ in range(2)]
        lines += ['class Base(object):', '    def base_m(self):', '        return 1', '    battr = 1', 'b0 = Base']
        lines += ['b%d = b%d' % (i, i - 1) for i in range(1, n + 1)]
        # an attribute whose value is memoised on the class's scope, produced by a factory reached through aliases
        kf = r.randrange(2, 50)
        lines += ['def factory():', '    return Base()', 'f0 = factory'] + ['f%d = f%d' % (i, i - 1) for i in range(1, kf + 1)]
        lines += ['class C(b%d):' % n, '    def __init__(self):', '        self.made = f%d()' % kf,
                  '    def own(self):', '        return 2', 'c = C()',
                  # (through an inherited attribute: the bases are needed in the middle of the deep evaluation)
                  'y0 = ' + r.choice(('c', 'c.battr', 'C().battr', 'c.base_m()', 'C', 'c.made', 'C().made.battr', 'c.made'))]
        lines += ['y%d = y%d' % (i, i - 1) for i in range(1, m + 1)]
        asks += [('c', False), ('y%d' % m, True), ('C', False), ('y%d' % (m // 2), True), ('b%d' % n, True), ('c.made', False)]
    if kind in ('attrassign', 'both'):
        k = r.choice((1, 2, 3))
        lines += ['class Box(object):', '    def __init__(self):', '        self.x = Inner()', '    def get(self):',
                  '        return self.x', 'class Inner(object):', '    inner_attr = 1']
        for j in range(k):
            via = r.choice(('p%d.x' % j, 'p%d.get()' % j))
            lines += ['p%d = Box()' % j, 'q%d = Box()' % j, 'first%d = %s' % (j, via), 'first%d.tag%d = 1' % (j, j),
                      'p%d.late%d = 2' % (j, j), 'q%d.other%d = first%d' % (j, j, j)]
            asks += [('p%d' % j, False), ('q%d' % j, False), ('first%d' % j, False), ('q%d.other%d' % (j, j), False)]
    r.shuffle(asks)
    asks = asks[:7]
    mod = {'name': 'zqshape', 'version': 1, 'iface': {'classes': [], 'funcs': [], 'insts': [], 'multis': []}, 'items': [['raw', lines]]}
    reqs = []
    for text, deep in asks:
        src = 'import zqshape\nzqshape.%s.\n' % text
        reqs.append({'kind': 'assist', 'source': src, 'position': [2, len('zqshape.%s.' % text)], 'file': 'zqmain.py'})
    if kind != 'attrassign':
        reqs.append({'kind': 'location', 'source': 'import zqshape\nzr = zqshape.c.base_m\n', 'position': [2, 24], 'file': 'zqmain.py'})
    n = len(reqs)
    orders = [list(range(n)), list(range(n))[::-1]] + [r.sample(range(n), n) for _ in range(4)]
    return {'kind': 'project', 'spec': {'modules': [mod]}, 'requests': reqs, 'orders': orders, 'idhash_seed': r.getrandbits(31),
            'shape': kind,
            'stack_faults': {'victims': r.sample(range(n), min(3, n)), 'limits': STACK_LIMITS, 'then': list(range(n))}}


def heavy_case(r):
    """Large modules: a request that walks through several classes with hundreds of instance attributes each does
    thousands of evaluation steps on a cold project and few on a warm one (work limits, bounded memos and the like only
    show at this size).  Every request is compared with a fresh project's answer, in several request orders."""
    nparts = r.choice((3, 4, 5, 6, 8))
    nfields = r.choice((60, 150, 150, 300, 450))
    chained = r.random() < 0.4
    mods = []
    for i in range(nparts):
        lines = []
        if i + 1 < nparts:
            lines.append('from zqh%d import Part%d' % (i + 1, i + 1))
        lines += ['', 'class Part%d(object):' % i, '    def __init__(self):']
        for j in range(nfields):
            val = str(j) if not (chained and j % 25) else 'self.f%d_%d' % (i, j - 1)
            lines.append('        self.f%d_%d = %s' % (i, j, val))
        if i + 1 < nparts:
            lines.append('        self.nxt = Part%d()' % (i + 1))
        mods.append({'name': 'zqh%d' % i, 'version': 1, 'iface': {'classes': ['Part%d' % i], 'funcs': [], 'insts': [], 'multis': []},
                     'items': [['raw', lines]]})
    mods.reverse()       # imported modules first, like the generated projects
    head = ['from zqh%d import Part%d' % (i, i) for i in range(nparts)] + ['p%d = Part%d()' % (i, i) for i in range(nparts)]
    reqs = []
    for i in range(nparts):
        text = 'p%d.f%d_0' % (i, i)
        src = '\n'.join(head + [text, ''])
        reqs.append({'kind': 'assist', 'source': src, 'position': [len(head) + 1, len('p%d.' % i)], 'file': 'zqmain.py'})
    for depth in sorted({nparts - 1, max(1, nparts // 2)}):
        text = 'p0' + '.nxt' * depth + '.f%d_%d' % (depth, nfields - 1)
        src = '\n'.join(head + [text, ''])
        col = len('p0' + '.nxt' * depth + '.')
        reqs.append({'kind': 'assist', 'source': src, 'position': [len(head) + 1, col], 'file': 'zqmain.py'})
        reqs.append({'kind': 'location', 'source': src, 'position': [len(head) + 1, col + 1], 'file': 'zqmain.py'})
    n = len(reqs)
    deep = list(range(nparts, n))
    orders = [deep + list(range(nparts)) + deep,                 # the deep walk first (cold), everything, deep again
              list(range(nparts))[::-1] + deep,                  # parts warmed one by one, then the deep walk
              [r.randrange(n) for _ in range(2 * n)]]
    return {'kind': 'project', 'spec': {'modules': mods}, 'requests': reqs, 'orders': orders, 'idhash_seed': r.getrandbits(31),
            'heavy': [nparts, nfields],
            'stack_faults': {'victims': deep[:2] + [0], 'limits': STACK_LIMITS, 'then': list(range(n))[:8]}}


def small_loop_program(r):
    """A function with one or two loops and few reads, so that all query orders can be enumerated."""
    g = F._Gen(r, 'loops', 6)
    g.names = list(F.VARS[:3])
    body = []
    v = g.var()
    body.append(['assign', v, '0'])
    loop_body = []
    for _ in range(r.choice((1, 2, 3))):
        x = r.random()
        if x < 0.4:
            loop_body.append(['if', g.var(), [['expr', 'print(%s)' % g.var()]], [],
                              [['assign', g.var(), g.var()]] if r.random() < 0.5 else None])
        elif x < 0.7:
            loop_body.append(['assign', g.var(), g.var()])
        elif x < 0.85:
            loop_body.append(['try', [['assign', g.var(), g.var()]], [['ValueError', None, [['expr', g.var()]]]], None, None])
        else:
            loop_body.append(['for', g.var(), g.var(), [['assign', g.var(), g.var()]], None])
    kind = r.choice(('for', 'while'))
    if kind == 'for':
        loop = ['for', g.var(), 'xs', loop_body, [['expr', g.var()]] if r.random() < 0.3 else None]
    else:
        loop = ['while', g.var(), loop_body, [['expr', g.var()]] if r.random() < 0.3 else None]
    body.append(loop)
    body.append(['return', g.var()])
    if r.random() < 0.7:
        return {'profile': 'small', 'body': [['def', 'f', ['xs'], body]]}
    return {'profile': 'small', 'body': body[:-1] + [['expr', 'print(%s)' % g.var()]]}


def plan(tier, seed, scale=1.0):
    nflow = int((200 if tier == 'quick' else 4500) * scale)
    nsmall = int((220 if tier == 'quick' else 5000) * scale)
    nproj = int((400 if tier == 'quick' else 8000) * scale)
    per = 10 if tier == 'quick' else 25
    nheavy = int((8 if tier == 'quick' else 160) * scale)
    groups = [[{'kind': 'file', 'path': fpath, 'seed': seed, 'tier': tier} for fpath in real_files(tier, seed)]]
    for mode, n in (('small', nsmall), ('flow', nflow), ('project', nproj)):
        groups.append([{'kind': 'runs', 'mode': mode, 'seed': seed, 'first': i, 'count': min(per, n - i)}
                       for i in range(0, n, per)])
    groups.append([{'kind': 'runs', 'mode': 'heavy', 'seed': seed, 'first': i, 'count': 1} for i in range(nheavy)])
    nshape = int((60 if tier == 'quick' else 1200) * scale)
    groups.append([{'kind': 'runs', 'mode': 'shape', 'seed': seed, 'first': i, 'count': min(5, nshape - i)} for i in range(0, nshape, 5)])
    # interleave the groups so that a wall-clock stop never drops a whole kind of workload
    units = []
    while any(groups):
        for g in groups:
            if g:
                units.append(g.pop(0))
    return units


def selftest_units(tier, seed):
    return ([{'kind': 'runs', 'mode': 'small', 'seed': seed, 'first': i, 'count': 1} for i in range(12)] +
            [{'kind': 'runs', 'mode': 'flow', 'seed': seed, 'first': i, 'count': 1} for i in range(10)] +
            [{'kind': 'runs', 'mode': 'project', 'seed': seed, 'first': i, 'count': 1} for i in range(6)] +
            [{'kind': 'file', 'path': os.path.join(REPO, 'supp', 'remote.py'), 'seed': seed, 'tier': 'quick'}])


def new_stats():
    return {'evals': 0, 'keys': set(), 'faults': {},
            'probes': {'modules_with_loops': 0, 'modules_with_all_permutations': 0, 'lint_passes_compared': 0,
                       'project_histories': 0, 'real_files': 0}}


def run_case(case, stats):
    if case['kind'] == 'flow':
        text = F.render(case['prog'])
        idhash.install(case.get('rng', 0))
        try:
            return check_text(text, os.path.join(SCRATCH, 'zqflow.py'), prng.rng('c04-order', case.get('rng', 0)), stats,
                              max_reads=case.get('max_reads', 20), orders=case.get('orders'),
                              stack_faults=case.get('stack_faults'))
        finally:
            idhash.uninstall()
    if case['kind'] == 'file':
        with open(case['path'], encoding='utf-8', errors='replace') as f:
            text = f.read()
        idhash.install(0)
        try:
            return check_text(text, case['path'], prng.rng('c04-file', case.get('seed', 0), os.path.basename(case['path'])),
                              stats, max_reads=24 if case.get('tier') != 'thorough' else 40,
                              # quick: the cheap operation on every file, all three on supp's own sources
                              ops=('names_at',) if (case.get('tier') != 'thorough' and os.sep + 'supp' + os.sep not in case['path'])
                              else ('names_at', 'declarations', 'evaluate'),
                              orders=case.get('orders'))
        finally:
            idhash.uninstall()
    return check_project(case, stats)


def run_unit(unit):
    stats = new_stats()
    vios = []
    samples = []
    log = prng.Log()
    if unit['kind'] == 'case':
        vs = run_case(unit['case'], stats)
        vios = [{'sig': v['sig'], 'case': unit['case'], 'detail': v['detail']} for v in vs[:2]]
        log.add([v['sig'] for v in vs])
    elif unit['kind'] == 'file':
        case = {'kind': 'file', 'path': unit['path'], 'seed': unit['seed'], 'tier': unit['tier']}
        vs = run_case(case, stats)
        stats['probes']['real_files'] += 1
        log.add(os.path.basename(unit['path']), [v['sig'] for v in vs], stats['evals'])
        for v in vs[:2]:
            c = dict(case)
            if isinstance(v.get('order'), list):
                c['orders'] = [v['order']]
            vios.append({'sig': v['sig'], 'case': c, 'detail': v['detail']})
    else:
        for i in range(unit['first'], unit['first'] + unit['count']):
            case = gen_case(unit['seed'], i, unit['mode'])
            vs = run_case(case, stats)
            log.add(i, prng.digest(case), [v['sig'] for v in vs], stats['evals'])
            if vs and len(vios) < 4:
                v = vs[0]
                c = dict(case, origin={'seed': unit['seed'], 'mode': unit['mode'], 'run': i})
                vios.append({'sig': v['sig'], 'case': c, 'detail': v['detail']})
            if i == unit['first'] and unit['first'] == 0:
                if case['kind'] == 'flow':
                    samples.append({'run': i, 'mode': unit['mode'], 'program': F.render(case['prog'])[:1500]})
                else:
                    samples.append({'run': i, 'mode': unit['mode'], 'modules': [m['name'] for m in case['spec']['modules']],
                                    'requests': [{'kind': q['kind'], 'source': q['source'][:150], 'position': q['position']}
                                                 for q in case['requests'][:4]], 'orders': case['orders'][:2]})
    return {'evals': stats['evals'], 'keys': sorted(stats['keys']), 'faults': stats['faults'], 'probes': stats['probes'],
            'violations': vios, 'samples': samples, 'digest': log.digest()}


# ---------------------------------------------------------------- replay / shrink

def replay_case(case):
    if SCRATCH is None:
        worker_init()
    c = {k: v for k, v in case.items() if k != 'origin'}
    return [{'sig': v['sig'], 'detail': v['detail']} for v in run_case(c, new_stats())]


def shrink(case, sig):
    if SCRATCH is None:
        worker_init()
    from engines.c17 import _paths, _delete
    base = {k: v for k, v in case.items() if k != 'origin'}

    def bad(c):
        try:
            return any(v['sig'] == sig for v in run_case(c, new_stats()))
        except Exception:
            return False
    if not bad(base):
        return case
    budget = 250
    if base['kind'] == 'flow':
        base.pop('orders', None)
        progress = True
        while progress and budget > 0:
            progress = False
            for p in sorted(_paths(base['prog']['body']), key=lambda p: (len(p), p)):
                budget -= 1
                if budget <= 0:
                    break
                cand = dict(base, prog=_delete(base['prog'], p))
                if not F.compiles(F.render(cand['prog'])):
                    continue
                if bad(cand):
                    base = cand
                    progress = True
                    break
        # keep the failing order explicit
        vs = [v for v in run_case(base, new_stats()) if v['sig'] == sig]
        if vs and isinstance(vs[0].get('order'), list):
            text = F.render(base['prog'])
            nreads = len(F.reads(text))
            if nreads <= 40:
                base['failing_order'] = vs[0]['order']
                base['failing_op'] = vs[0]['op']
    elif base['kind'] == 'project':
        vs = [v for v in run_case(base, new_stats()) if v['sig'] == sig]
        if vs and vs[0].get('stack'):
            j, limit, k = vs[0]['stack']
            c = dict(base, orders=[], stack_faults={'victims': [j], 'limits': [limit], 'then': [k]})
            if bad(c):
                base = c
        elif vs:
            c = dict(base, orders=[vs[0]['order']])
            if bad(c):
                base = c
        if base['orders']:
            base = ddmin.shrink_fields(base, [('orders', 0)], bad, ddmin.Budget(80))
        for mi in range(len(base['spec']['modules']) - 1, -1, -1):
            c = copy.deepcopy(base)
            del c['spec']['modules'][mi]
            if bad(c):
                base = c
        for mi in range(len(base['spec']['modules'])):
            base = ddmin.shrink_fields(base, [('spec', 'modules', mi, 'items')], bad, ddmin.Budget(60))
    return base
