"""C15 - remote calls are transparent and failures are isolated.

One client thread drives the real remote.Environment; the child "process" thread runs the real server.py main
block; both under the deterministic kernel with fake Popen/Listener/Client/Connection and a discrete-event
clock.  Every reply is compared with an in-process reference Project that receives the same history."""
import logging
import os
import shutil
import traceback

from sim import prng, ddmin
from sim.kernel import Kernel, RandomWalk, Replay, Scheduler, KernelAbort
from sim.fakes import World, quiet_logging
from sim import idhash
from gen import project as G

import supp.remote as remote
from supp import assistant, linter
from supp.project import Project

PROPERTY = 'C15'
LEVEL = 'exploration'
BUDGET_S = {'quick': 110, 'thorough': 1700}
UNIT_TIMEOUT_S = 1200
REMOTE_FILE = remote.__file__
REMOTE_CODES = [f.__code__ for f in vars(remote.Environment).values() if hasattr(f, '__code__')]
STEP_CAP = 60000

RULE = ('One evaluation = one simulated client/server session: a generated project (3-6 modules) on a scratch disk, '
        '1-40 calls over configure/assist/location/lint/eval with seeded think times (0-60 simulated seconds between '
        'calls) and payload classes (empty, ordinary, >2^16 bytes, >2^20 bytes, replies with >15 / >2^16 entries), '
        'failing requests of six kinds injected at seeded indices (thorough: at every index and every pair of indices '
        'of short sequences), seeded child start-up delay; each reply compared with an in-process reference that gets '
        'the same history.  Non-trivial = at least one failing request, think time >= 1 poll period, or slow start-up; '
        'distinct = distinct event-log digests (kernel steps + normalised replies) among those.')
ASSUMPTIONS = [
    'kernel and fakes as in C16; the connection is message-atomic and loss-free (an AF_UNIX stream cannot lose, '
    'duplicate or reorder messages, and the protocol has no message identifiers)',
    'the in-process reference shares supp.assistant / supp.linter with the server by construction: that is the property',
    'eval bodies return literals, so the expected eval reply is known without calling the server code',
]
REAL = ['supp/remote.py Environment', 'supp/server.py module body, Server.process/run and request methods',
        'supp/umsgpack.py', 'supp/assistant.py, linter.py, project.py, ... (the analyser, on real files in a scratch directory)']
STUB = ['threads/lock/clock/Popen/Listener/Client/Connection -> sim/fakes.py', 'in-process reference Project as the model']

SCRATCH = os.path.join(os.environ.get('VERIF_SCRATCH', '/tmp'), 'vsim-c15-%08d' % (os.getpid() % 10 ** 8))


class Capture(logging.Handler):
    def __init__(self):
        logging.Handler.__init__(self, level=logging.ERROR)
        self.records = []

    def emit(self, record):
        self.records.append(record)


_capture = Capture()


def worker_init():
    global SCRATCH
    quiet_logging()
    SCRATCH = os.path.join(os.environ.get('VERIF_SCRATCH', '/tmp'), 'vsim-c15-%08d' % (os.getpid() % 10 ** 8))
    lg = logging.getLogger('server')
    if _capture not in lg.handlers:
        lg.addHandler(_capture)
    import atexit
    atexit.register(lambda: shutil.rmtree(SCRATCH, ignore_errors=True))


# ---------------------------------------------------------------- case generation

FAULT_KINDS = ('analyser_raises', 'unknown_method', 'bad_args', 'unserialisable', 'before_configure', 'eval_raises',
               'bad_configure', 'unsendable')

# text that is no valid unicode: lone surrogates, also adjacent ones whose low bytes would form a UTF-8 sequence
# (what os.fsdecode() makes of undecodable file names)
BAD_TEXT = ['\ud800', 'x\udcff', '\udce4\udcb8\udcad', '\udcc3\udca9y']


def gen_fault(r, kind, uid):
    if kind == 'analyser_raises' and r.random() < 0.4:
        # a relative import in a buffer that is not inside a package
        v = r.randrange(3)
        src = ('from . import zqa\nzqa.\n', 'from .zqa import \n', 'from . import zqb\nzr = zqb\n')[v]
        pos = ([2, 4], [1, 17], [2, 7])[v]
        return {'op': ('assist', 'assist', 'location')[v], 'source': src, 'position': pos, 'file': 'zqmain.py', 'fault': kind}
    if kind == 'analyser_raises':
        name = r.choice(('len', 'print', 'int', 'ValueError'))
        return {'op': 'location', 'source': '%s = 1\nzr = %s\n' % (uid, name), 'position': [2, 5 + r.randrange(1, len(name))],
                'file': 'zqmain.py', 'fault': kind}
    if kind == 'unknown_method':
        return {'op': 'raw', 'name': r.choice(('nosuch_' + uid, 'get_docstring', 'get_scope')), 'args': [uid], 'fault': kind}
    if kind == 'bad_args':
        v = r.randrange(4)
        if v == 0:
            return {'op': 'raw', 'name': 'assist', 'args': ['%s = 1\n' % uid], 'fault': kind}
        if v == 1:
            return {'op': 'raw', 'name': 'lint', 'args': [], 'fault': kind}
        if v == 2:
            return {'op': 'raw', 'name': 'assist', 'args': [5, [1, 0], 'zqmain.py'], 'fault': kind}
        return {'op': 'raw', 'name': 'location', 'args': ['%s = 1\n' % uid, None, 'zqmain.py'], 'fault': kind}
    if kind == 'unserialisable':
        body = r.choice(('return {1, 2, %r}' % uid, 'return object()', 'return [1, (2, {3})]', 'return 2 ** 70',
                         'return {"k": print}',
                         # results the packer rejects for other reasons than an unsupported type
                         'return %r + chr(0xd800)' % uid, 'a = [%r]\na.append(a)\nreturn a' % uid,
                         'return [%r * 100, {"k": [1, 2, object()]}]' % uid,
                         # a failure whose own message cannot be serialised
                         'raise ValueError(chr(0xdc00) + %r)' % uid,
                         # text that is no unicode; results that cannot even be printed
                         'return %r + chr(0xdce4) + chr(0xdcb8) + chr(0xdcad)' % uid,
                         'return {chr(0xdcc3) + chr(0xdca9): %r}' % uid,
                         'class R(object):\n    def __repr__(self):\n        raise ValueError("no repr " + %r)\nreturn [1, R()]' % uid,
                         'x = [%r]\nfor i in range(100000):\n    x = [x]\nreturn x' % uid))
        return {'op': 'eval', 'body': body, 'expect': None, 'calc': True, 'fault': kind}
    if kind == 'unsendable':
        # a buffer whose text cannot be sent (and cannot be parsed in-process either): the call raises, nothing else happens
        bad = r.choice(BAD_TEXT)
        op = r.choice(('lint', 'assist', 'location'))
        return {'op': op, 'source': '%s = 1\nzs = "%s"\nzs\n' % (uid, bad), 'position': [3, 2], 'file': 'zqmain.py', 'fault': kind}
    if kind == 'eval_raises':
        body = r.choice(('raise ValueError(%r)' % ('boom ' + uid), 'return 1 / 0', 'return undefined_' + uid,
                         'raise KeyError(%r)' % uid, 'import nosuchmodule_' + uid))
        return {'op': 'eval', 'body': body, 'expect': None, 'calc': True, 'fault': kind}
    raise ValueError(kind)


def gen_configure(r, enabled, prev=None):
    """A configure call: project root variant, dyn_modules, sometimes malformed, sometimes an exact repeat."""
    if prev is not None and r.random() < 0.3:
        return dict(prev)
    c = {'op': 'configure', 'variant': r.choice('ab'), 'dyn': r.choice((None, None, ['json'], ['textwrap', 'json'], []))}
    if 'bad_configure' in enabled and r.random() < 0.35:
        c['bad'] = r.choice(('nosources', 'dyn_int'))
        c['fault'] = 'bad_configure'
    return c


def config_of(call, root):
    if call.get('bad') == 'nosources':
        return {}
    cfg = {'sources': [root]}
    if call.get('bad') == 'dyn_int':
        cfg['dyn_modules'] = 5
    elif call.get('dyn') is not None:
        cfg['dyn_modules'] = list(call['dyn'])
    return cfg


STDLIB_REQS = [
    ('assist', 'import json\njson.', [2, 5]), ('assist', 'import textwrap\ntextwrap.', [2, 9]),
    ('assist', 'from json import dumps\ndumps.', [2, 6]), ('location', 'import json\nzr = json.loads\n', [2, 13]),
    ('assist', 'import textwrap\nzw = textwrap.TextWrapper()\nzw.', [3, 3]),
]


def gen_call(r, spec, uid):
    x = r.random()
    if x > 0.9:
        kind, src, pos = r.choice(STDLIB_REQS)
        return {'op': kind, 'source': '%s = 1\n' % uid + src + '\n', 'position': [pos[0] + 1, pos[1]], 'file': 'zqmain.py'}
    if x < 0.2:
        v = r.randrange(8)
        if v == 0:
            return {'op': 'eval', 'body': 'return %r' % uid, 'expect': uid}
        if v == 1:
            return {'op': 'eval', 'body': 'return [%r] * %d' % (uid, r.choice((15, 16, 17, 300))), 'expect': None, 'calc': True}
        if v == 2:
            return {'op': 'eval', 'body': 'return list(range(%d)) + [%r]' % (r.choice((65535, 65536, 70000)), uid), 'expect': None, 'calc': True}
        if v == 3:
            return {'op': 'eval', 'body': 'return %r * %d' % (uid[:1], r.choice((31, 32, 255, 256, 65535, 65536, 2 ** 20 + 3))), 'expect': None, 'calc': True}
        if v == 4:
            return {'op': 'eval', 'body': 'return (1, (2.5, None, True), {"k": (%r,)}, b"by")' % uid, 'expect': None, 'calc': True}
        if v == 5:
            return {'op': 'eval', 'body': 'return {%r: [-1, -33, 255, 65536, 2**32, 2**63, -2**63, 2**64 - 1]}' % uid, 'expect': None, 'calc': True}
        if v == 6:
            if r.random() < 0.5:
                # a request that takes long on the server (virtual clock): the reply must still pair with it
                d = r.choice((3, 12, 25, 70))
                return {'op': 'eval', 'body': 'import time\ntime.sleep(%d)\nreturn %r' % (d, uid), 'expect': uid, 'slow': d}
            return {'op': 'eval', 'body': 'pass', 'expect': None, 'calc': True}
        return {'op': 'eval', 'body': 'x = %r\nreturn x + x' % uid, 'expect': uid + uid}
    q = G.gen_request(r, spec, uid=uid)
    call = {'op': q['kind'], 'source': q['source'], 'file': q['file']}
    if q['position'] is not None:
        call['position'] = q['position']
    y = r.random()
    if y < 0.04:
        call['pad'] = r.choice((2 ** 16 + 5, 2 ** 16 - 40, 2 ** 17))
        call['pad_first'] = r.random() < 0.5
    elif y < 0.055:
        call['pad'] = 2 ** 20 + 11
        call['pad_first'] = r.random() < 0.5
    elif y < 0.07:
        call['source'] = ''
        if 'position' in call:
            call['position'] = [1, 0]
    if q['file'] == 'zqmain.py' and r.random() < 0.25:
        call['common_file'] = True
    if q['kind'] == 'lint' and r.random() < 0.15:
        call['syntax_only'] = True
    if q['kind'] == 'lint' and r.random() < 0.1:
        call['source'] = call['source'] + 'def broken(:\n'
    return call


def gen_case(seed, i, mode='main'):
    r = prng.rng('c15', seed, mode, i)
    spec = G.gen_project(r)
    n = r.choice((1, 2, 3, 5, 8, 12, 20, 40)) if mode == 'main' else r.choice((2, 3, 4, 5, 6))
    fault_rate = r.choice((0.0, 0.05, 0.15, 0.4))
    enabled = [k for k in FAULT_KINDS if r.random() < 0.5]
    calls = []
    configured = False
    last_conf = None
    for j in range(n):
        uid = 'u%d_%d' % (i % 1000, j)
        if not configured:
            if 'before_configure' in enabled and r.random() < 0.3:
                c = gen_call(r, spec, uid)
                if c['op'] in ('assist', 'location', 'lint'):
                    c['fault'] = 'before_configure'
                calls.append(c)
                continue
            calls.append(gen_configure(r, enabled, None))
            configured = not calls[-1].get('bad')
            last_conf = calls[-1]
            continue
        if enabled and r.random() < fault_rate:
            kinds = [k for k in enabled if k not in ('before_configure', 'bad_configure')]
            if kinds:
                calls.append(gen_fault(r, r.choice(kinds), uid))
                continue
        if r.random() < 0.08:
            calls.append(gen_configure(r, enabled, last_conf))
            last_conf = calls[-1]
            continue
        earlier = [c for c in calls if c['op'] in ('assist', 'location', 'lint') and not c.get('fault')]
        if earlier and r.random() < (0.5 if calls[-1]['op'] == 'configure' else 0.06):
            # the very same request again (an editor re-lints an untouched buffer; after a reconfigure the answer
            # may have to be another one)
            same = [c for c in earlier if c.get('common_file')] or earlier
            calls.append(dict(r.choice(same[-3:])))
            continue
        calls.append(gen_call(r, spec, uid))
    think_on = r.random() < 0.6
    thinks = [(r.choice((0, 0, 0.2, 1.5, 7, 60)) if think_on else 0) for _ in calls]
    spec_b = {'modules': list(spec['modules'])}
    for mi in range(len(spec_b['modules'])):
        spec_b['modules'][mi] = G.mutate_module(r, spec_b, mi)
    return {
        'spec': spec, 'spec_b': spec_b, 'calls': calls, 'thinks': thinks,
        'launch_delay': r.choice((0.0, 0.0, 0.3, 0.7, 1.3, 2.0)),
        'sched': {'kind': 'random', 'seed': r.getrandbits(48), 'p': r.choice((0.0, 0.02, 0.1, 0.3, 0.5))},
        'idhash_seed': r.getrandbits(32),
    }


def gen_exhaustive_case(seed, i):
    """Short sequences with a failing request at every index / every pair of indices."""
    r = prng.rng('c15', seed, 'exh-base', i // 64)
    spec = G.gen_project(r)
    n = r.choice((3, 4, 5, 6))
    base = [{'op': 'configure'}] + [gen_call(r, spec, 'e%d_%d' % (i % 1000, j)) for j in range(n - 1)]
    r2 = prng.rng('c15', seed, 'exh', i)
    slots = [(a, b) for a in range(1, n + 1) for b in range(a, n + 1)]
    a, b = slots[(i % 64) % len(slots)]
    calls = list(base)
    for pos in sorted(set([a, b]), reverse=True):
        kinds = [k for k in FAULT_KINDS if k != 'before_configure']
        k = r2.choice(kinds)
        if k == 'bad_configure':
            f = gen_configure(r2, ['bad_configure'], None)
            f['bad'] = f.get('bad') or 'nosources'
            f['fault'] = 'bad_configure'
            calls.insert(pos, f)
            if r2.random() < 0.5:
                calls.insert(pos + 1, dict(f))
        else:
            calls.insert(pos, gen_fault(r2, k, 'f%d_%d' % (i % 1000, pos)))
    return {'spec': spec, 'calls': calls, 'thinks': [0] * len(calls), 'launch_delay': 0.0,
            'sched': {'kind': 'default'}}


def gen_reconf_case(seed, i):
    """Sessions that switch between two configurations and send the very same requests under each: whatever the
    server remembers about a request must not outlive the project it was computed for."""
    r = prng.rng('c15', seed, 'reconf', i)
    spec = G.gen_project(r)
    spec_b = {'modules': list(spec['modules'])}
    for mi in range(len(spec_b['modules'])):
        spec_b['modules'][mi] = G.mutate_module(r, spec_b, mi)
    reqs = []
    for j in range(r.choice((1, 2, 3))):
        c = gen_call(r, spec, 'r%d_%d' % (i % 1000, j))
        if c['op'] in ('assist', 'location', 'lint'):
            if c['file'] == 'zqmain.py':
                c['common_file'] = True
            c.pop('pad', None)
            reqs.append(c)
    # a buffer that uses names of version 1 of a module: complete under configuration a, undefined names under b
    m = r.choice([m for m in spec['modules'] if not m.get('init')])
    names = [it[1] for it in m['items'] if it[0] == 'assign'][:2]
    reqs.append({'op': 'lint', 'source': 'from %s import *\nprint(%s)\n' % (m['name'], ', '.join(names) or '1'),
                 'file': 'zqmain.py', 'common_file': True})
    calls = []
    variant = r.choice('ab')
    for _ in range(r.choice((2, 3, 4))):
        calls.append({'op': 'configure', 'variant': variant, 'dyn': r.choice((None, None, ['json'], []))})
        k = r.sample(reqs, r.randrange(1, len(reqs) + 1))
        calls.extend(dict(c) for c in k)
        if r.random() < 0.3:
            calls.extend(dict(c) for c in k[:1])
        variant = 'b' if variant == 'a' else ('a' if r.random() < 0.8 else 'b')
    return {'spec': spec, 'spec_b': spec_b, 'calls': calls, 'thinks': [0] * len(calls), 'launch_delay': 0.0,
            'sched': {'kind': 'default'}, 'idhash_seed': r.getrandbits(32)}


def plan(tier, seed, scale=1.0):
    n = int((4000 if tier == 'quick' else 190000) * scale)
    nx = int((1200 if tier == 'quick' else 70000) * scale)
    per = 50 if tier == 'quick' else 400
    units = []
    for i in range(0, n, per):
        units.append({'kind': 'runs', 'mode': 'main', 'seed': seed, 'first': i, 'count': min(per, n - i)})
    for i in range(0, nx, per):
        units.append({'kind': 'runs', 'mode': 'exh', 'seed': seed, 'first': i, 'count': min(per, nx - i)})
    nr = int((400 if tier == 'quick' else 20000) * scale)
    for i in range(0, nr, per):
        units.append({'kind': 'runs', 'mode': 'reconf', 'seed': seed, 'first': i, 'count': min(per, nr - i)})
    return units


def selftest_units(tier, seed):
    return ([{'kind': 'runs', 'mode': 'main', 'seed': seed, 'first': i, 'count': 1} for i in range(24)] +
            [{'kind': 'runs', 'mode': 'exh', 'seed': seed, 'first': i, 'count': 1} for i in range(8)] +
            [{'kind': 'runs', 'mode': 'reconf', 'seed': seed, 'first': i, 'count': 1} for i in range(6)])


# ---------------------------------------------------------------- one simulated session

def norm(v, depth=0):
    """What a value looks like after a MessagePack round trip: tuples arrive as lists."""
    if depth > 40:
        return '<nested deeper than 40 levels or cyclic>'
    if isinstance(v, (list, tuple)):
        return [norm(x, depth + 1) for x in v]
    if isinstance(v, dict):
        return {k: norm(x, depth + 1) for k, x in v.items()}
    return v


def strip_root(v, root):
    if isinstance(v, str):
        return v.replace(root, '<root>')
    if isinstance(v, list):
        return [strip_root(x, root) for x in v]
    if isinstance(v, dict):
        return {k: strip_root(x, root) for k, x in v.items()}
    return v


def make_sched(spec):
    if spec['kind'] == 'random':
        return RandomWalk(prng.rng('sched', spec['seed']), spec['p'])
    if spec['kind'] == 'replay':
        return Replay(spec['deviations'])
    return Scheduler()


def full_source(call):
    src = call['source']
    pad = call.get('pad')
    if pad:
        if call.get('pad_first'):
            src = '# ' + 'p' * pad + '\n' + src
        else:
            src = src + '# ' + 'p' * pad + '\n'
    return src


def full_position(call):
    ln, col = call['position']
    if call.get('pad') and call.get('pad_first'):
        ln += 1
    return (ln, col)


class Session(object):
    def __init__(self, case, keep_events=0):
        self.case = case
        self.vios = []
        self.kernel = Kernel(make_sched(case['sched']), step_cap=STEP_CAP, time_cap=100000.0,
                             trace_file=REMOTE_FILE, keep_events=keep_events)
        self.world = World(self.kernel, os.path.dirname(os.path.dirname(REMOTE_FILE)),
                           launch_delays=[case.get('launch_delay', 0.0)] * 4)
        self.root = os.path.join(SCRATCH, 'p')
        self.cur = "a"
        self.faults = {}
        self.probes = {'reply_over_64KiB': 0, 'request_over_64KiB': 0, 'request_over_1MiB': 0, 'serialise_fallback': 0,
                       'poll_timed_out_while_idle': 0, 'failure_then_success': 0, 'reply_list_over_65535': 0}
        self.ref_project = None
        self.iso_project = None      # the same history without the requests that failed

    def vio(self, sig, detail):
        self.vios.append({'sig': sig, 'detail': detail[:3000]})

    def reference(self, call):
        """The in-process API on the reference project, same history.  Returns ('ok', value) or ('exc', exception)."""
        op = call['op']
        try:
            if op == 'configure':
                cfg = config_of(call, self.src_root(call))
                self.ref_project = Project(cfg['sources'], dyn_modules=cfg.get('dyn_modules'))
                return 'ok', None
            if op == 'eval':
                if call.get('calc'):
                    ctx = {}
                    body = '\n'.join('    ' + l for l in call['body'].splitlines())
                    exec('def boo():\n%s\nresult = boo()' % body, ctx)
                    return 'ok', ctx['result']
                return 'ok', call.get('expect')
            p = self.ref_project
            fn = self.filename(call)
            src = full_source(call)
            with p.check_changes():
                if op == 'assist':
                    return 'ok', assistant.assist(p, src, full_position(call), fn)
                if op == 'location':
                    return 'ok', assistant.location(p, src, full_position(call), fn)
                if op == 'lint':
                    return 'ok', [r[:4] for r in linter.lint(p, src, fn)]
        except Exception as e:
            return 'exc', e
        raise ValueError(op)

    def isolated(self, call):
        """What the reply would be had the earlier failing requests never been sent: the in-process API on a
        project that receives only the requests that succeeded.  Returns ('ok', value) / ('exc', e) / None."""
        op = call['op']
        if op == 'configure':
            try:
                cfg = config_of(call, self.src_root(call))
                self.iso_project = Project(cfg['sources'], dyn_modules=cfg.get('dyn_modules'))
            except Exception:
                pass
            return None
        if op not in ('assist', 'location', 'lint') or self.iso_project is None:
            return None
        p = self.iso_project
        fn = self.filename(call)
        src = full_source(call)
        try:
            with p.check_changes():
                if op == 'assist':
                    return 'ok', assistant.assist(p, src, full_position(call), fn)
                if op == 'location':
                    return 'ok', assistant.location(p, src, full_position(call), fn)
                return 'ok', [r[:4] for r in linter.lint(p, src, fn)]
        except Exception as e:
            return 'exc', e

    def filename(self, call):
        if call.get('common_file'):
            # a buffer that does not live under the configured root (scratch buffer, file of another checkout)
            return os.path.join(self.root, 'zqscratch.py')
        return os.path.join(self.src_root(), call['file'])

    def src_root(self, call=None):
        v = call.get('variant', 'a') if call is not None else self.cur
        return os.path.join(self.root, v)

    def remote_call(self, env, call):
        op = call['op']
        if op == 'configure':
            res = env.configure(config_of(call, self.src_root(call)))
            self.cur = call.get('variant', 'a')      # only a configure that succeeded moves the session to the new root
            return res
        if op == 'eval':
            return env.eval(call['body'])
        if op == 'raw':
            args = list(call['args'])
            return env._call(call['name'], *args)
        fn = self.filename(call)
        src = full_source(call)
        if op == 'assist':
            return env.assist(src, full_position(call), fn)
        if op == 'location':
            return env.location(src, full_position(call), fn)
        if op == 'lint':
            if call.get('syntax_only'):
                return env.lint(src, fn, True)
            return env.lint(src, fn)
        raise ValueError(op)

    def main(self):
        case = self.case
        k = self.kernel
        w = self.world
        env = remote.Environment(executable='python-sim')
        log = k.log
        prev_failed = False
        for idx, call in enumerate(case['calls']):
            think = case['thinks'][idx] if idx < len(case['thinks']) else 0
            if think:
                before = w.counts.get('poll_timeout', 0)
                k.sleep(think, ('harness', 'think'))
                if w.counts.get('poll_timeout', 0) > before:
                    self.probes['poll_timed_out_while_idle'] += 1
            op = call['op']
            fault = call.get('fault')
            del _capture.records[:]
            t0 = k.now
            nproc = len(w.procs)
            try:
                got = ('ok', self.remote_call(env, call))
            except KernelAbort:
                raise
            except Exception as e:
                got = ('exc', e)
            elapsed = k.now - t0
            logged = [rec.exc_info[1] for rec in _capture.records if rec.exc_info and rec.name == 'server']
            exp = self.reference(call) if op != 'raw' and not (fault == 'before_configure') else ('exc', None)
            if op in ('assist', 'location', 'lint') and self.ref_project is None and fault != 'before_configure':
                exp = ('exc', None)
            tag = fault or op
            if fault:
                self.faults[fault] = self.faults.get(fault, 0) + 1

            # ---- liveness
            budget = 10.0 + call.get('slow', 0) + (case.get('launch_delay', 0.0) + 5.0 if len(w.procs) > nproc else 0.0)
            if call.get('slow'):
                self.faults['slow_request'] = self.faults.get('slow_request', 0) + 1
            if elapsed > budget:
                self.vio('C15/liveness/slow-call/%s' % tag, 'call %d took %.2f simulated seconds' % (idx, elapsed))

            # ---- failure reporting / transparency
            if got[0] == 'ok':
                if exp[0] == 'exc':
                    self.vio('C15/missing-exception/%s' % tag,
                             'call %d (%s) returned %r although the in-process call raises %r' % (
                                 idx, _brief(call), _brief(got[1]), exp[1]))
                else:
                    if norm(got[1]) != norm(exp[1]):
                        self.vio('C15/transparency/%s' % tag,
                                 'call %d (%s): remote reply %r != in-process result %r' % (
                                     idx, _brief(call), _brief(strip_root(norm(got[1]), self.root)),
                                     _brief(strip_root(norm(exp[1]), self.root))))
                    elif type(got[1]) is not type(norm(exp[1])):
                        self.vio('C15/transparency-type/%s' % tag, 'call %d: reply type %s, expected %s' % (
                            idx, type(got[1]).__name__, type(norm(exp[1])).__name__))
                if prev_failed:
                    self.probes['failure_then_success'] += 1
                prev_failed = False
                logv = strip_root(norm(got[1]), self.root)
                log.add('reply', idx, op, prng.digest(logv) if len(repr(logv)) > 200 else repr(logv))
            else:
                e = got[1]
                msg = str(e)
                if fault == 'unserialisable':
                    self.probes['serialise_fallback'] += 1
                    if type(e) is not Exception or msg != 'Serialize error':
                        self.vio('C15/failure-report/unserialisable', 'call %d: expected Exception("Serialize error"), got %r' % (idx, e))
                elif fault == 'unsendable' and exp[0] == 'exc':
                    pass        # raised on the client side, before anything was sent: any exception will do
                elif exp[0] == 'ok':
                    self.vio('C15/unexpected-exception/%s/%s' % (tag, type(e).__name__),
                             'call %d (%s) raised %r but the in-process call returns %r\n%s' % (
                                 idx, _brief(call), e, _brief(exp[1]), ''.join(traceback.format_exception(e))[-1200:]))
                else:
                    if type(e) is not Exception:
                        self.vio('C15/failure-report/%s/client-raised-%s' % (tag, type(e).__name__),
                                 'call %d: the client raised %r instead of Exception(server message)\n%s' % (
                                     idx, e, ''.join(traceback.format_exception(e))[-1200:]))
                    elif not logged:
                        self.vio('C15/failure-report/%s/not-logged' % tag,
                                 'call %d raised %r but the server logged no exception for it' % (idx, e))
                    elif msg != str(logged[-1]):
                        self.vio('C15/failure-report/%s/message' % tag,
                                 'call %d: client message %r != message of the exception the server logged %r' % (
                                     idx, msg, str(logged[-1])))
                    elif exp[1] is not None and str(exp[1]) != msg and fault in ('analyser_raises', 'bad_configure', None):
                        self.vio('C15/failure-report/%s/reference-message' % tag,
                                 'call %d: client message %r != in-process exception message %r' % (idx, msg, str(exp[1])))
                prev_failed = True
                log.add('raised', idx, op, type(e).__name__, strip_root(msg, self.root)[:200])

            # ---- isolation: a request that failed has not changed this reply
            if exp[0] == 'ok' and got[0] == 'ok' and op in ('assist', 'location', 'lint', 'configure'):
                iso = self.isolated(call)
                if iso is not None and (iso[0] != 'ok' or norm(iso[1]) != norm(got[1])):
                    self.vio('C15/isolation/later-reply-changed/%s' % op,
                             'call %d (%s): reply %r, but with the failing requests before it left out the in-process API answers %r' % (
                                 idx, _brief(call), _brief(strip_root(norm(got[1]), self.root)),
                                 _brief(strip_root(norm(iso[1]), self.root)) if iso[0] == 'ok' else repr(iso[1])))

            # ---- isolation: the server survives every request
            live = [p for p in w.procs if p.returncode is None]
            if len(w.procs) != 1:
                self.vio('C15/isolation/launch-count/%d' % len(w.procs), 'after call %d there were %d launches' % (idx, len(w.procs)))
            elif not live:
                self.vio('C15/isolation/server-died/%s' % tag, 'server process exited after call %d (%s); exit=%r exc=%r' % (
                    idx, _brief(call), w.procs[0].returncode, w.procs[0].exc))
                return
        for c in w.client_conns + w.server_conns:
            pass

    def execute(self):
        case = self.case
        shutil.rmtree(self.root, ignore_errors=True)
        os.makedirs(self.root)
        G.write_project(os.path.join(self.root, 'a'), case['spec'])
        G.write_project(os.path.join(self.root, 'b'), case.get('spec_b') or case['spec'])
        w = self.world
        k = self.kernel
        # payload probes through the send hook
        def on_send(conn, data):
            n = len(data)
            if conn.name.startswith('c'):
                if n > 2 ** 20:
                    self.probes['request_over_1MiB'] += 1
                elif n > 2 ** 16:
                    self.probes['request_over_64KiB'] += 1
            elif n > 2 ** 16:
                self.probes['reply_over_64KiB'] += 1
                if data[:1] == b'\x92' and data[1:2] == b'\xdd':
                    self.probes['reply_list_over_65535'] += 1
        w.on_send = on_send
        w.install()
        idhash.install(case.get('idhash_seed', 0))
        k.install_tracing(REMOTE_CODES)
        try:
            main = k.run(self.main, name='main', group='client', traced=True)
        finally:
            k.remove_tracing()
            idhash.uninstall()
            w.uninstall()
            shutil.rmtree(self.root, ignore_errors=True)
        if k.harness_error:
            raise RuntimeError('harness: ' + k.harness_error)
        if main.exc is not None:
            raise RuntimeError('harness main thread crashed: ' + (main.exc_text or repr(main.exc)))
        if k.final_reason in ('deadlock', 'step-cap', 'time-cap'):
            stuck = [(t.name, t.wait_label or t.last_label) for t in k.threads if not t.finished and not t.dead]
            self.vio('C15/liveness/' + k.final_reason, 'kernel stopped the run: %r' % (stuck,))
        return self


def _brief(x):
    try:
        r = repr(x)
    except Exception as e:      # values whose repr raises or recurses too deep are generated on purpose
        r = '<%s object, repr raises %s>' % (type(x).__name__, type(e).__name__)
    return r if len(r) <= 300 else r[:300] + '...(%d chars)' % len(r)


def run_case(case, keep_events=0):
    s = Session(case, keep_events).execute()
    k = s.kernel
    w = s.world
    faults = dict(s.faults)
    if case.get('launch_delay'):
        faults['slow_child_startup'] = 1
    if w.counts.get('connect_refused'):
        faults['connect_refused'] = w.counts['connect_refused']
    return {'violations': s.vios, 'digest': getattr(k, 'final_digest', None) or k.log.digest(), 'steps': k.step, 'sim_s': k.now,
            'deviations': list(k.deviations), 'faults': faults, 'probes': s.probes, 'diverged': k.diverged,
            'poll_timeouts': w.counts.get('poll_timeout', 0), 'events': k.log.events}


def case_of(unit, i):
    if unit['mode'] == 'exh':
        return gen_exhaustive_case(unit['seed'], i)
    if unit['mode'] == 'reconf':
        return gen_reconf_case(unit['seed'], i)
    return gen_case(unit['seed'], i, unit['mode'])


def run_unit(unit):
    if unit['kind'] == 'case':
        res = run_case(unit['case'])
        return {'evals': 1, 'keys': [], 'faults': res['faults'], 'probes': res['probes'],
                'violations': [{'sig': v['sig'], 'case': unit['case'], 'detail': v['detail']} for v in res['violations'][:2]],
                'digest': res['digest'], 'steps': res['steps'], 'sim_s': res['sim_s']}
    keys = set()
    faults = {}
    probes = {}
    vios = []
    samples = []
    steps = 0
    sim_s = 0.0
    ncalls = 0
    log = prng.Log()
    for i in range(unit['first'], unit['first'] + unit['count']):
        case = case_of(unit, i)
        res = run_case(case)
        log.add(i, res['digest'])
        steps += res['steps']
        sim_s += res['sim_s']
        ncalls += len(case['calls'])
        for kf, n in res['faults'].items():
            faults[kf] = faults.get(kf, 0) + n
        for kp, n in res['probes'].items():
            probes[kp] = probes.get(kp, 0) + n
        if res['faults'] or res['poll_timeouts']:
            keys.add(int(res['digest'], 16) & 0xffffffffffff)
        if res['violations'] and len(vios) < 4:
            explicit = dict(case, sched={'kind': 'replay', 'deviations': [list(d) for d in res['deviations']]},
                            origin={'seed': unit['seed'], 'mode': unit['mode'], 'run': i})
            for v in res['violations'][:2]:
                vios.append({'sig': v['sig'], 'case': explicit, 'detail': v['detail']})
        if i == unit['first'] and unit['first'] == 0:
            samples.append({'run': i, 'mode': unit['mode'],
                            'calls': [dict((kk, (vv if not isinstance(vv, str) or len(vv) < 160 else vv[:160] + '...'))
                                           for kk, vv in c.items()) for c in case['calls'][:6]],
                            'thinks': case['thinks'][:6], 'launch_delay': case['launch_delay'],
                            'modules': [m['name'] for m in case['spec']['modules']], 'steps': res['steps'],
                            'simulated_seconds': round(res['sim_s'], 2)})
    return {'evals': unit['count'], 'keys': sorted(keys), 'faults': faults, 'probes': probes, 'violations': vios,
            'samples': samples, 'digest': log.digest(), 'steps': steps, 'sim_s': sim_s,
            'extra': {'calls_issued': ncalls}}


# ---------------------------------------------------------------- replay / shrink

def replay_case(case):
    res = run_case(case)
    if res['diverged']:
        # the workload matters, the recorded schedule could not be followed: retry under the default policy
        res = run_case(dict(case, sched={'kind': 'default'}))
    return res['violations']


def _has(case, sig):
    try:
        res = run_case(case)
    except Exception:
        return False
    return (not res['diverged']) and any(v['sig'] == sig for v in res['violations'])


def shrink(case, sig):
    import copy
    case = copy.deepcopy(case)
    case.pop('origin', None)
    if not _has(case, sig):
        return case
    budget = ddmin.Budget(250)
    d = dict(case, sched={'kind': 'default'})
    if _has(d, sig):
        case = d

    def test(c):
        c = dict(c, thinks=(c['thinks'] + [0] * len(c['calls']))[:len(c['calls'])])
        return _has(c, sig)
    # calls (think times are index-aligned: reset them first if possible)
    z = dict(case, thinks=[0] * len(case['calls']))
    if _has(z, sig):
        case = z
    if any(case['thinks']):
        # keep alignment: shrink calls and thinks together
        pairs = list(zip(case['calls'], case['thinks']))
        pairs = ddmin.ddmin(pairs, lambda ps: _has(dict(case, calls=[p[0] for p in ps], thinks=[p[1] for p in ps]), sig), budget)
        case = dict(case, calls=[p[0] for p in pairs], thinks=[p[1] for p in pairs])
    else:
        case = ddmin.shrink_fields(case, ['calls'], test, budget)
        case['thinks'] = [0] * len(case['calls'])
    if case.get('launch_delay') and budget.take():
        c = dict(case, launch_delay=0.0)
        if _has(c, sig):
            case = c
    # modules, then items of modules
    for mi in range(len(case['spec']['modules']) - 1, -1, -1):
        if not budget.take():
            break
        c = copy.deepcopy(case)
        del c['spec']['modules'][mi]
        if _has(c, sig):
            case = c
    for mi in range(len(case['spec']['modules'])):
        case = ddmin.shrink_fields(case, [('spec', 'modules', mi, 'items')], lambda c: _has(c, sig), budget)
    for c_i, call in enumerate(case['calls']):
        if call.get('pad') and budget.take():
            c = copy.deepcopy(case)
            del c['calls'][c_i]['pad']
            if _has(c, sig):
                case = c
    if case['sched'].get('deviations'):
        case = ddmin.shrink_fields(case, [('sched', 'deviations')], lambda c: _has(c, sig), budget)
    return case
