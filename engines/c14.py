"""C14 - MessagePack codec: lossless, spec-conformant, rejects truncation.

Channel simulation:  value -> real umsgpack.pack(value, SimStream) -> bytes -> real umsgpack.unpack(SimStream)
with the stream ending (EOF) at an injected byte offset; reference codec gen/refcodec.py as the model."""
import io

from sim import prng
from gen import refcodec, values

import supp.umsgpack as U

PROPERTY = 'C14'
LEVEL = 'fault_enumeration'
BUDGET_S = {'quick': 100, 'thorough': 1500}
UNIT_TIMEOUT_S = 1200
RULE = ('Cases: every integer within +-3 of +-2^k (k in 5,7,8,15,16,31,32,63,64), every str/bin/ext/array/map '
        'length within +-2 of 15/16, 31/32, 255/256, 65535/65536, all 256 first bytes, out-of-range integers, seeded '
        'random nested values (depth<=6), each encoded by the real codec and by the reference encoder in every legal '
        '(boundary tables) or seeded (random values) format; fault = stream EOF after k bytes, every k for encodings '
        '<= 4096 bytes (<= 768 for random nested values), headers + both ends + seeded interior offsets beyond (thorough: every k for str/bin/ext). '
        'One evaluation = one encode or decode execution on a SimStream. distinct_nontrivial counts distinct '
        '(top-level format byte, format byte of the object being read when the data ended, phase of that object: '
        'code/len/exttype/body/elems) triples among executions with an injected cut, plus distinct '
        '(format-byte multiset signature) of fault-free encodings that use a non-minimal or multi-byte format.')
ASSUMPTIONS = [
    'reference codec gen/refcodec.py (written from the MessagePack specification) is correct; it is cross-checked '
    'on hand-written vectors from the specification at start-up',
    'value domain: valid UTF-8 strings, hashable scalar map keys pairwise distinct under Python equality, '
    'application ext types 0..127, lists (not tuples) for arrays',
    'a stream that ends is the only fault: short non-EOF reads and reader exceptions are outside the property',
    'umsgpack.compatibility is False (the default the RPC layer uses)',
]
REAL = ['supp/umsgpack.py: pack, unpack, dumps, loads (unmodified)']
STUB = ['SimStream (the fp argument of pack/unpack) with an EOF fault plan', 'reference codec gen/refcodec.py']

SPEC_VECTORS = [
    (None, 'c0'), (False, 'c2'), (True, 'c3'), (0, '00'), (127, '7f'), (-1, 'ff'), (-32, 'e0'), (128, 'cc80'),
    (256, 'cd0100'), (65536, 'ce00010000'), (2 ** 32, 'cf0000000100000000'), (-33, 'd0df'), (-129, 'd1ff7f'),
    (-32769, 'd2ffff7fff'), (-2 ** 31 - 1, 'd3ffffffff7fffffff'), (1.0, 'cb3ff0000000000000'), ('', 'a0'),
    ('a', 'a161'), (b'', 'c400'), (b'\x01', 'c40101'), ([], '90'), ([1, 2], '920102'), ({}, '80'),
    ({'a': 1}, '81a16101'), (refcodec.RExt(1, b'\x05'), 'd40105'), (refcodec.RExt(-1, b'ab'), 'd5ff6162'),
    (refcodec.RExt(3, b'abc'), 'c70303616263'), ({'compact': True, 'schema': 0}, '82a7636f6d70616374c3a6736368656d6100'),
]


class SimStream(object):
    """The channel.  eof_at = number of bytes after which the stream reports end of data."""
    def __init__(self, data=b'', eof_at=None):
        self.data = data
        self.end = len(data) if eof_at is None else eof_at
        self.pos = 0
        self.out = bytearray()
        self.nreads = 0
        self.nwrites = 0

    def read(self, n):
        self.nreads += 1
        chunk = self.data[self.pos:min(self.pos + n, self.end)]
        self.pos += len(chunk)
        return chunk

    def write(self, b):
        self.nwrites += 1
        self.out += b
        return len(b)


def worker_init():
    for v, hx in SPEC_VECTORS:
        enc = refcodec.encode(v)
        if enc.hex() != hx:
            raise AssertionError('reference encoder disagrees with the specification vector %r: %s' % (v, enc.hex()))
        if not refcodec.same(refcodec.decode_all(bytes.fromhex(hx)), v):
            raise AssertionError('reference decoder disagrees with the specification vector %r' % (v,))


# ---------------------------------------------------------------- planning

def plan(tier, seed, scale=1.0):
    units = [{'kind': 'firstbytes'}, {'kind': 'range'}]
    ints = values.boundary_ints()
    for i in range(0, len(ints), 16):
        units.append({'kind': 'ints', 'ints': [str(x) for x in ints[i:i + 16]]})
    units.append({'kind': 'shapes'})
    for t0 in range(0, 128, 32):
        units.append({'kind': 'exttypes', 'first': t0, 'count': 32})
    fl = values.boundary_floats()
    for i in range(0, len(fl), 32):
        units.append({'kind': 'floats', 'floats': [values.fspec(x)['f'] for x in fl[i:i + 32]]})
    for n in values.boundary_lens():
        for fam, spec in values.len_specs(n):
            units.append({'kind': 'len', 'family': fam, 'spec': spec, 'n': n, 'tier': tier, 'seed': seed})
    for n in values.BIG_LENS:
        for fam, spec in values.big_specs(n):
            units.append({'kind': 'len', 'family': fam, 'spec': spec, 'n': n, 'tier': tier, 'seed': seed, 'big': True})
    nseq = int((20000 if tier == 'quick' else 1000000) * scale)
    for i in range(0, nseq, 2000 if tier == 'quick' else 20000):
        units.append({'kind': 'sequences', 'seed': seed, 'first': i, 'count': min(2000 if tier == 'quick' else 20000, nseq - i)})
    nrand = int((3000 if tier == 'quick' else 120000) * scale)
    per = 100 if tier == 'quick' else 1000
    for i in range(0, nrand, per):
        units.append({'kind': 'random', 'seed': seed, 'first': i, 'count': min(per, nrand - i), 'tier': tier})
    return units


def selftest_units(tier, seed):
    return [{'kind': 'random', 'seed': seed, 'first': 0, 'count': 40},
            {'kind': 'sequences', 'seed': seed, 'first': 0, 'count': 300},
            {'kind': 'len', 'family': 'map', 'spec': {'M': 17}, 'n': 17, 'tier': 'quick', 'seed': seed},
            {'kind': 'ints', 'ints': ['-33', '255', '65536']},
            {'kind': 'floats', 'floats': ['3ff0000000000001', '47efffffe0000000']}, {'kind': 'shapes'}]


# ---------------------------------------------------------------- one unit

class Acc(object):
    CAP = 5

    def __init__(self):
        self.evals = 0
        self.keys = set()
        self.faults = {'eof_in_code': 0, 'eof_in_len': 0, 'eof_in_exttype': 0, 'eof_in_body': 0, 'eof_in_elems': 0,
                       'refused_midway': 0, 'eof_in_sequence': 0, 'invalid_stream_in_sequence': 0}
        self.probes = {'cut_inside_length_header': 0, 'nonminimal_format_decoded': 0, 'nested_cut_depth_ge_2': 0,
                       'encoding_ge_65536_bytes': 0}
        self.violations = []
        self.samples = []
        self.log = prng.Log()

    def vio(self, sig, case, detail):
        if len(self.violations) < self.CAP:
            self.violations.append({'sig': sig, 'case': case, 'detail': detail[:1500]})

    def result(self):
        return {'evals': self.evals, 'keys': sorted(self.keys), 'faults': self.faults, 'probes': self.probes,
                'violations': self.violations, 'samples': self.samples, 'digest': self.log.digest()}


class Chooser(object):
    def __init__(self, rng=None, script=None):
        self.rng = rng
        self.script = list(script) if script is not None else None
        self.picked = []

    def __call__(self, opts):
        if self.script is not None:
            o = self.script.pop(0) if self.script else opts[0]
            if o not in opts:
                o = opts[0]
        elif self.rng is None:
            o = opts[0]
        else:
            o = opts[0] if self.rng.random() < 0.4 else self.rng.choice(opts)
        self.picked.append(o)
        return o


def fmtsig(data, limit=64):
    return '%02x' % data[0] if data else '--'


def check_fault_free(acc, spec, v, uv, case):
    """Round trip through the real codec and the reference, fault-free stream.  Returns the real encoding."""
    st = SimStream()
    acc.evals += 1
    try:
        U.pack(uv, st)
    except Exception as e:
        acc.vio('C14/pack-raised/%s' % type(e).__name__, case, 'pack(%r) raised %r' % (spec, e))
        return None
    enc = bytes(st.out)
    acc.log.add('enc', len(enc), prng.digest(enc) if len(enc) > 64 else enc.hex())
    if len(enc) >= 65536:
        acc.probes['encoding_ge_65536_bytes'] += 1
    top = fmtsig(enc)
    acc.evals += 1
    if U.dumps(uv) != enc:
        acc.vio('C14/dumps-differs-from-pack/%s' % top, case, 'dumps and pack(stream) wrote different bytes')
    # the encoding is valid MessagePack: the independent decoder reads back the same value
    try:
        rv = refcodec.decode_all(enc)
        ok = refcodec.same(rv, v)
    except (refcodec.Truncated, refcodec.Invalid) as e:
        ok = False
        rv = e
    if not ok:
        acc.vio('C14/not-spec-conformant/%s' % top, case,
                'reference decoder read %r from %s... (value %r)' % (_short(rv), enc[:24].hex(), spec))
    # lossless: the real decoder returns an equal value
    rd = SimStream(enc)
    acc.evals += 1
    try:
        back = U.unpack(rd)
        ok = refcodec.same(back, v)
    except Exception as e:
        back = e
        ok = False
    if not ok:
        acc.vio('C14/roundtrip/%s' % top, case, 'unpack(pack(v)) = %r for v = %r' % (_short(back), spec))
    acc.evals += 1
    try:
        back = U.loads(enc)
        ok = refcodec.same(back, v)
    except Exception as e:
        back = e
        ok = False
    if not ok:
        acc.vio('C14/roundtrip-loads/%s' % top, case, 'loads(dumps(v)) = %r for v = %r' % (_short(back), spec))
    if isinstance(rv, (refcodec.Truncated, refcodec.Invalid)):
        return None     # not MessagePack at all (already reported): its prefixes mean nothing
    return enc


def check_alt_encoding(acc, spec, v, enc, picked, case):
    """The decoder accepts a spec-valid encoding that uses arbitrary legal formats."""
    top = fmtsig(enc)
    acc.evals += 1
    try:
        back = U.unpack(SimStream(enc))
        ok = refcodec.same(back, v)
    except Exception as e:
        back = e
        ok = False
    acc.log.add('alt', picked if len(picked) < 20 else prng.digest(picked), ok)
    if not ok:
        acc.vio('C14/rejects-valid-encoding/%s' % top, case,
                'unpack of reference encoding (formats %r) gave %r for v = %r' % (picked[:12], _short(back), spec))
    if any(p not in ('pfix', 'nfix', 'fix') for p in picked[:8]):
        acc.probes['nonminimal_format_decoded'] += 1
        acc.keys.add(prng.derive('alt', top, tuple(sorted(set(picked)))) & 0xffffffffffff)


def cut_points(n, header, tier, rng, full=False, limit=4096, container=False):
    if n <= limit or (full and n <= 2 ** 17):
        return range(n)
    if n > 2 ** 17:
        # large payloads: the header, both ends, and the neighbourhood of every multiple of 64 KiB of the payload
        # (readers that work in chunks have their boundaries there), plus seeded interior offsets
        pts = set(range(min(n, header + 8)))
        pts.update(range(max(0, n - 40), n))
        for m in range(0, n, 65536):
            for d in (-2, -1, 0, 1, 2):
                for base in (m, m + header):
                    if 0 <= base + d < n:
                        pts.add(base + d)
        for _ in range(64):
            pts.add(rng.randrange(n))
        return sorted(pts)
    edge = 16 if (container and tier == 'quick') else 64
    pts = set(range(min(n, header + edge)))
    pts.update(range(max(0, n - edge), n))
    if container:
        k = 24 if tier == 'quick' else 512
    else:
        k = 256 if tier == 'quick' else 4096
    for _ in range(k):
        pts.add(rng.randrange(n))
    return sorted(pts)


def check_cuts(acc, enc, points, case, use_loads_every=7):
    top = fmtsig(enc)
    ann = refcodec.annotate(enc)
    sanity = set(list(points)[:3] + list(points)[-2:])
    for k in points:
        acc.evals += 1
        fmt, phase = ann[k]
        if k in sanity:
            # harness sanity: the one-pass annotation agrees with the reference decoder run on the prefix
            try:
                refcodec.decode(memoryview(enc)[:k])
                raise AssertionError('harness: proper prefix of length %d decoded by the reference' % k)
            except refcodec.Truncated as e:
                if (e.fmt, e.phase) != (fmt, phase):
                    raise AssertionError('harness: annotate %r != decode %r at %d' % ((fmt, phase), (e.fmt, e.phase), k))
        where = ('%02x' % fmt if fmt is not None else '--', phase)
        acc.faults['eof_in_' + where[1]] += 1
        if where[1] == 'len':
            acc.probes['cut_inside_length_header'] += 1
        if where[0] != top and where[0] != '--':
            acc.probes['nested_cut_depth_ge_2'] += 1
        acc.keys.add(prng.derive('cut', top, where) & 0xffffffffffff)
        st = SimStream(enc, eof_at=k)
        try:
            got = U.unpack(st)
            outcome = 'returned:' + type(got).__name__
        except U.InsufficientDataException:
            outcome = 'ok'
        except Exception as e:
            outcome = 'raised:' + type(e).__name__
        if outcome == 'ok' and k % use_loads_every == 0 and len(enc) <= 4096:
            try:
                U.loads(enc[:k])
                outcome = 'loads-returned'
            except U.InsufficientDataException:
                pass
            except Exception as e:
                outcome = 'loads-raised:' + type(e).__name__
        if outcome != 'ok':
            c = dict(case)
            c['cut'] = k
            acc.vio('C14/cut/%s/%s-%s/%s' % (top, where[0], where[1], outcome), c,
                    'stream of %d bytes ended after %d bytes: unpack %s (expected InsufficientDataException)' % (
                        len(enc), k, outcome))
    acc.log.add('cuts', len(points))
    if len(points) and case.get('spec') is not None and len(enc) <= 4096 and not case.get('formats'):
        sentinel(acc, {'op': 'dec_cut', 'spec': case['spec'], 'cut': list(points)[len(points) // 2]})


def _short(x):
    r = repr(x)
    return r if len(r) < 200 else r[:200] + '...'


def _is_container(enc):
    c = enc[0]
    return 0x80 <= c <= 0x9f or c in (0xdc, 0xdd, 0xde, 0xdf)


def header_len(enc):
    c = enc[0]
    if c in (0xc4, 0xd9):
        return 2
    if c in (0xc5, 0xda, 0xdc, 0xde):
        return 3
    if c in (0xc6, 0xdb, 0xdd, 0xdf):
        return 5
    if c == 0xc7:
        return 3
    if c == 0xc8:
        return 4
    if c == 0xc9:
        return 6
    if 0xd4 <= c <= 0xd8:
        return 2
    return 1


def all_choices(v):
    """Enumerate every legal format for the TOP-LEVEL object of v (inner objects minimal)."""
    seen = []

    class Probe(object):
        def __init__(self):
            self.first = True

        def __call__(self, opts):
            if self.first:
                self.first = False
                seen.extend(opts)
            return opts[0]
    refcodec.encode(v, Probe())
    out = []
    for o in seen:
        class Pick(object):
            def __init__(self, o):
                self.o = o
                self.first = True

            def __call__(self, opts):
                if self.first:
                    self.first = False
                    return self.o
                return opts[0]
        out.append((o, refcodec.encode(v, Pick(o))))
    return out


def run_value(acc, spec, tier, rng, exhaustive_formats, nalt=2, full_cuts=False, limit=4096):
    v = values.build(spec)
    uv = values.to_u(v, U)
    case = {'kind': 'value', 'spec': spec, 'formats': None, 'cut': None}
    enc = check_fault_free(acc, spec, v, uv, case)
    if enc is not None:
        check_cuts(acc, enc, cut_points(len(enc), header_len(enc), tier, rng, full_cuts, limit, _is_container(enc)), case)
    if exhaustive_formats:
        for o, alt in all_choices(v):
            c = dict(case, formats=[o])
            check_alt_encoding(acc, spec, v, alt, [o], c)
            if alt != enc:
                check_cuts(acc, alt, cut_points(len(alt), header_len(alt), tier, rng, False, limit, _is_container(alt)), c)
    else:
        for _ in range(nalt):
            ch = Chooser(rng)
            alt = refcodec.encode(v, ch)
            c = dict(case, formats=ch.picked if len(ch.picked) <= 400 else ch.picked[:400])
            if len(ch.picked) > 400:
                continue
            check_alt_encoding(acc, spec, v, alt, ch.picked, c)
            if alt != enc:
                check_cuts(acc, alt, cut_points(len(alt), header_len(alt), tier, rng, False, limit, _is_container(alt)), c)


SENTINEL = ['s', 1, {'k': [None, True]}]
SENTINEL_ENC = refcodec.encode(SENTINEL)


def run_sequence(acc, ops, case=None):
    """A history of codec operations on one interpreter state; every operation has its own oracle, so an operation
    that fails (a refused value, a truncated or invalid stream) must not change what later operations do."""
    case = case or {'kind': 'sequence', 'ops': ops}
    hist = []
    for i, op in enumerate(ops):
        acc.evals += 1
        k = op['op']
        hist.append(k)
        tag = '%s-after-%s' % (k, hist[-2] if len(hist) > 1 else 'start')
        try:
            if k == 'enc':
                v = values.build(op['spec'])
                uv = values.to_u(v, U)
                if op.get('api') == 'pack':
                    st = SimStream()
                    U.pack(uv, st)
                    enc = bytes(st.out)
                else:
                    enc = U.dumps(uv)
                try:
                    ok = refcodec.same(refcodec.decode_all(enc), v)
                except (refcodec.Truncated, refcodec.Invalid):
                    ok = False
                if ok:
                    ok = refcodec.same(U.loads(enc), v)
                outcome = 'ok' if ok else 'wrong-bytes'
                acc.log.add('seq', i, k, len(enc), outcome)
            elif k == 'refuse':
                uv = values.to_u(values.build(op['spec']), U)
                try:
                    if op.get('api') == 'pack':
                        U.pack(uv, SimStream())
                    else:
                        U.dumps(uv)
                    outcome = 'encoded'
                except U.UnsupportedTypeException:
                    outcome = 'ok'
                acc.faults['refused_midway'] = acc.faults.get('refused_midway', 0) + 1
                acc.log.add('seq', i, k, outcome)
            elif k == 'dec':
                v = values.build(op['spec'])
                enc = refcodec.encode(v, Chooser(script=op.get('formats') or []))
                outcome = 'ok' if refcodec.same(U.unpack(SimStream(enc)), v) else 'wrong-value'
                acc.log.add('seq', i, k, outcome)
            elif k == 'dec_cut':
                v = values.build(op['spec'])
                enc = refcodec.encode(v)
                cut = op['cut'] % max(1, len(enc))
                try:
                    U.unpack(SimStream(enc, eof_at=cut))
                    outcome = 'returned'
                except U.InsufficientDataException:
                    outcome = 'ok'
                acc.faults['eof_in_sequence'] = acc.faults.get('eof_in_sequence', 0) + 1
                acc.log.add('seq', i, k, cut, outcome)
            elif k == 'dec_bad':
                try:
                    U.loads(bytes.fromhex(op['hex']))
                    outcome = 'returned'
                except U.UnpackException:
                    outcome = 'ok'
                acc.faults['invalid_stream_in_sequence'] = acc.faults.get('invalid_stream_in_sequence', 0) + 1
                acc.log.add('seq', i, k, outcome)
            else:
                raise ValueError(k)
        except Exception as e:
            if isinstance(e, ValueError) and str(e) == k:
                raise
            outcome = 'raised:' + type(e).__name__
        if outcome != 'ok':
            acc.vio('C14/history/%s/%s' % (tag, outcome), case,
                    'operation %d (%s) of the sequence %r: %s' % (i, _short(op), hist, outcome))
            return False
    if any(h in ('refuse', 'dec_cut', 'dec_bad') for h in hist[:-1]):
        acc.keys.add(prng.derive('seq', tuple(hist)) & 0xffffffffffff)
    return True


def sentinel(acc, fault_op):
    """After an injected fault in the other units: the codec must still treat an unrelated value correctly."""
    return run_sequence(acc, [fault_op, {'op': 'enc', 'spec': SENTINEL_SPEC, 'api': 'dumps'},
                              {'op': 'enc', 'spec': SENTINEL_SPEC, 'api': 'pack'}, {'op': 'dec', 'spec': SENTINEL_SPEC}])


SENTINEL_SPEC = [{'s': 's'}, 1, {'m': [[{'s': 'k'}, [None, True]]]}]


def gen_sequence(rng):
    ops = []
    n = rng.choice((2, 3, 4, 6, 8))
    if rng.random() < 0.3:
        # values that are equal in Python but are different MessagePack values, encoded one after the other
        fam = rng.choice(([1, True, {'f': '3ff0000000000000'}], [0, False, {'f': '0000000000000000'}],
                          [{'s': ''}, {'b': ''}], [{'s': 'ab'}, {'b': '6162'}], [2, {'f': '4000000000000000'}]))
        rng.shuffle(fam)
        shape = rng.randrange(3)
        for k in fam:
            spec = {'m': [[k, {'s': 'v'}]]} if shape == 0 else ([k, k] if shape == 1 else {'m': [[{'s': 'k'}, k]]})
            ops.append({'op': 'enc', 'spec': spec, 'api': rng.choice(('dumps', 'pack'))})
            if rng.random() < 0.5:
                ops.append({'op': 'dec', 'spec': spec, 'formats': []})
    for i in range(n):
        x = rng.random()
        small = values.rand_value(rng, 3, [rng.choice((3, 8, 20))])
        if x < 0.30 or (i == 0 and x < 0.7):
            bad = rng.choice(['int:%d' % (2 ** 64 + rng.randrange(3)), 'int:%d' % (-2 ** 63 - 1 - rng.randrange(3)),
                              'int:%d' % (2 ** 70), 'obj', 'set'])
            lead = [values.rand_scalar(rng) for _ in range(rng.choice((0, 1, 2, 5, 17)))]
            shape = rng.randrange(4)
            if shape == 0:
                spec = lead + [{'X': bad}]
            elif shape == 1:
                spec = {'m': [[i2, e] for i2, e in enumerate(lead)] + [[999, {'X': bad}]]}
            elif shape == 2:
                spec = [small, [lead + [{'X': bad}]], 7]
            else:
                spec = {'X': bad}
            ops.append({'op': 'refuse', 'spec': spec, 'api': rng.choice(('dumps', 'pack'))})
        elif x < 0.42:
            ops.append({'op': 'dec_cut', 'spec': small, 'cut': rng.randrange(0, 4096)})
        elif x < 0.47:
            ops.append({'op': 'dec_bad', 'hex': rng.choice(('c1', '92c1', '81a16bc1'))})
        elif x < 0.75:
            ops.append({'op': 'enc', 'spec': small, 'api': rng.choice(('dumps', 'dumps', 'pack'))})
        else:
            ch = Chooser(rng)
            refcodec.encode(values.build(small), ch)
            ops.append({'op': 'dec', 'spec': small, 'formats': ch.picked[:200]})
    # every history ends by exercising both encode entry points and the decoder once more, so that whatever a
    # fault left behind shows inside this history (and cannot leak into the next one run by the same worker)
    tail = values.rand_value(rng, 2, [6])
    ops.append({'op': 'enc', 'spec': tail, 'api': 'dumps'})
    ops.append({'op': 'enc', 'spec': tail, 'api': 'pack'})
    ops.append({'op': 'dec', 'spec': tail, 'formats': []})
    return ops


def fresh_codec():
    """Every unit (and every replay) starts from a freshly executed codec module, so that a unit is a self-contained
    history: whatever state the codec keeps between calls was built inside the unit and is rebuilt by its replay."""
    import importlib
    importlib.reload(U)


def run_unit(unit):
    fresh_codec()
    res = _run_unit(unit)
    if unit.get('kind') not in ('case', 'sequences'):
        for v in res['violations']:
            # if the single value does not reproduce on its own, the history that led to it does
            v['case'] = dict(v['case'], _unit=unit)
    return res


def _sample_hex(U, value):
    """Encoding of a sample value for the evidence file; a refusal here must not turn a verdict into a harness error."""
    try:
        return U.dumps(value).hex()
    except Exception as e:
        return 'raised:' + type(e).__name__


def _run_unit(unit):
    acc = Acc()
    kind = unit['kind']
    if kind == 'sequences':
        for i in range(unit['first'], unit['first'] + unit['count']):
            ops = gen_sequence(prng.rng('c14-seq', unit['seed'], i))
            fresh_codec()
            run_sequence(acc, ops)
            if i == unit['first']:
                acc.samples.append({'kind': 'sequence', 'run': i, 'ops': ops[:6]})
        return acc.result()
    if kind == 'case':
        for v in replay_case(unit['case']):
            acc.vio(v['sig'], unit['case'], v['detail'])
        acc.evals += 1
    elif kind == 'firstbytes':
        for c in range(256):
            acc.evals += 1
            data = bytes([c])
            try:
                got = U.unpack(SimStream(data))
                outcome = 'value'
            except U.InsufficientDataException:
                outcome = 'insufficient'
            except U.UnpackException:
                outcome = 'unpack-exception'
            except Exception as e:
                outcome = 'raised:' + type(e).__name__
            if c == 0xc1:
                ok = outcome in ('unpack-exception',)
            elif refcodec.one_byte_complete(c):
                ok = outcome == 'value' and refcodec.same(got, refcodec.decode_all(data))
            else:
                ok = outcome == 'insufficient'
            acc.log.add('fb', c, outcome)
            acc.keys.add(prng.derive('fb', c) & 0xffffffffffff)
            if not ok:
                acc.vio('C14/firstbyte/%02x/%s' % (c, outcome), {'kind': 'firstbyte', 'byte': c},
                        'one-byte message %02x: %s' % (c, outcome))
        acc.samples.append({'kind': 'firstbytes', 'bytes': 256})
    elif kind == 'range':
        for x in (2 ** 64, 2 ** 64 + 1, 2 ** 64 + 3, 2 ** 65, 2 ** 100, -2 ** 63 - 1, -2 ** 63 - 2, -2 ** 63 - 3,
                  -2 ** 64, -2 ** 100):
            for wrap in (lambda y: y, lambda y: [y], lambda y: {'k': y}):
                acc.evals += 1
                case = {'kind': 'range', 'int': str(x), 'wrap': type(wrap(0)).__name__}
                for name, f in (('dumps', U.dumps), ('pack', lambda o: U.pack(o, SimStream()))):
                    try:
                        f(wrap(x))
                        outcome = 'encoded'
                    except U.UnsupportedTypeException:
                        outcome = 'ok'
                    except Exception as e:
                        outcome = 'raised:' + type(e).__name__
                    acc.log.add('range', str(x), name, outcome)
                    if outcome != 'ok':
                        acc.vio('C14/out-of-range/%s/%s' % (name, outcome), case,
                                '%s(%d) %s, expected UnsupportedTypeException' % (name, x, outcome))
                    wspec = {'X': 'int:%d' % x}
                    wspec = wspec if case['wrap'] == 'int' else ([1, wspec] if case['wrap'] == 'list' else {'m': [[{'s': 'j'}, 1], [{'s': 'k'}, wspec]]})
                    sentinel(acc, {'op': 'refuse', 'spec': wspec, 'api': name})
        acc.samples.append({'kind': 'range', 'example': str(2 ** 64)})
    elif kind == 'ints':
        rng = prng.rng('c14-ints')
        for s in unit['ints']:
            x = int(s)
            if -2 ** 63 <= x < 2 ** 64:
                run_value(acc, x, 'quick', rng, True)
                run_value(acc, [x, x], 'quick', rng, False, nalt=1)
        x0 = next((int(x) for x in unit['ints'] if -2 ** 63 <= int(x) < 2 ** 64), None)
        if x0 is not None:
            real = _sample_hex(U, x0)   # evidence only: the verdict on x0 was given by run_value above
            acc.samples.append({'kind': 'ints', 'value': str(x0), 'real_encoding_hex': real,
                                'reference_encodings_decoded': {o: e.hex() for o, e in all_choices(x0)},
                                'stream_cut_after_bytes': list(range(len(real) // 2)) if not real.startswith('raised') else [],
                                'expected_at_every_cut': 'InsufficientDataException'})
    elif kind == 'exttypes':
        # every application type code with every header form (fixext 1/2/4/8/16, ext8) and an empty payload
        rng = prng.rng('c14-exttypes')
        for t in range(unit['first'], unit['first'] + unit['count']):
            for n in (0, 1, 2, 3, 4, 8, 16, 17):
                run_value(acc, {'E': [t, (t * 7 + n) % 256, n]}, 'quick', rng, True, nalt=1)
            run_value(acc, [{'E': [t, 47, 3]}, {'m': [[{'s': 'k'}, {'E': [t, 0, 0]}], [1, {'E': [t, 46, 1]}]]}], 'quick', rng, False, nalt=1)
        acc.samples.append({'kind': 'exttypes', 'types': [unit['first'], unit['first'] + unit['count'] - 1]})
    elif kind == 'shapes':
        rng = prng.rng('c14-shapes')
        for spec in values.shapes():
            run_value(acc, spec, 'quick', rng, True)
        acc.probes['shared_container_values'] = acc.probes.get('shared_container_values', 0) + 1
        acc.samples.append({'kind': 'shapes', 'specs': values.shapes()[:3]})
    elif kind == 'floats':
        rng = prng.rng('c14-floats')
        for h in unit['floats']:
            run_value(acc, {'f': h}, 'quick', rng, True)
            run_value(acc, {'m': [[{'f': h}, {'f': h}]]}, 'quick', rng, False, nalt=1)
        acc.probes['double_next_to_a_single'] = acc.probes.get('double_next_to_a_single', 0) + len(unit['floats'])
        acc.samples.append({'kind': 'floats', 'value_hex': unit['floats'][0], 'real_encoding_hex': _sample_hex(U, values.build(unit['floats'] and {'f': unit['floats'][0]}))})
    elif kind == 'len':
        rng = prng.rng('c14-len', unit['seed'], unit['family'], unit['n'])
        full = unit['tier'] == 'thorough' and unit['family'] in ('str', 'str-mb', 'bin', 'ext')
        run_value(acc, unit['spec'], unit['tier'], rng, True, full_cuts=full)
        if unit['n'] < 1000:
            run_value(acc, [unit['spec'], 7], unit['tier'], rng, False, nalt=1)   # nested: cut lands inside an inner object
        if unit.get('big'):
            acc.probes['encoding_ge_1MiB'] = acc.probes.get('encoding_ge_1MiB', 0) + 1
        acc.samples.append({'kind': 'len', 'family': unit['family'], 'n': unit['n'], 'spec': unit['spec']})
    elif kind == 'random':
        for i in range(unit['first'], unit['first'] + unit['count']):
            rng = prng.rng('c14-random', unit['seed'], i)
            spec = values.rand_value(rng, 6)
            run_value(acc, spec, unit.get('tier', 'quick'), rng, False, nalt=2, limit=768)
            if i == unit['first']:
                acc.samples.append({'kind': 'random', 'run': i, 'spec': spec})
    else:
        raise ValueError(kind)
    return acc.result()


# ---------------------------------------------------------------- replay / shrink

def replay_case(case, expect=None):
    fresh_codec()
    unit = case.get('_unit')
    vios = _replay_case({k: v for k, v in case.items() if k != '_unit'})
    if not vios and unit is not None:
        # history dependent: replay the whole unit from a fresh codec, keeping every violation it meets
        fresh_codec()
        Acc.CAP = 100000
        try:
            found = _run_unit(unit)['violations']
        finally:
            Acc.CAP = 5
        if expect is not None and any(v['sig'] == expect for v in found):
            found = [v for v in found if v['sig'] == expect][:1]
        vios = [{'sig': v['sig'], 'detail': '(only reproducible as part of its unit %r) ' % (unit,) + v['detail']}
                for v in found[:20]]
    return vios


def _replay_case(case):
    acc = Acc()
    kind = case['kind']
    if kind == 'sequence':
        run_sequence(acc, case['ops'], case)
        return acc.violations
    if kind == 'firstbyte':
        r = _run_unit({'kind': 'firstbytes'})
        return [v for v in r['violations'] if v['case'].get('byte') == case['byte']]
    if kind == 'range':
        r = _run_unit({'kind': 'range'})
        return [v for v in r['violations'] if v['case'] == case]
    spec = case['spec']
    v = values.build(spec)
    uv = values.to_u(v, U)
    base = dict(case, cut=None)
    if case.get('formats') is None:
        enc = check_fault_free(acc, spec, v, uv, base)
    else:
        ch = Chooser(script=case['formats'])
        enc = refcodec.encode(v, ch)
        check_alt_encoding(acc, spec, v, enc, case['formats'], base)
    if case.get('cut') is not None and enc is not None:
        check_cuts(acc, enc, [case['cut']], base, use_loads_every=1)
    return acc.violations


def _clause(sig):
    return '/'.join(sig.split('/')[:2])


def _children(spec):
    """Simpler specs to try instead of `spec` (sub-values first, then element removal)."""
    out = []
    if isinstance(spec, list):
        out.extend(spec)
        for i in range(len(spec)):
            out.append(spec[:i] + spec[i + 1:])
        for i, x in enumerate(spec):
            for c in _children(x)[:6]:
                out.append(spec[:i] + [c] + spec[i + 1:])
    elif isinstance(spec, dict):
        (k, a), = spec.items()
        if k == 'm':
            for kk, vv in a:
                out.append(kk)
                out.append(vv)
            for i in range(len(a)):
                out.append({'m': a[:i] + a[i + 1:]})
            for i, (kk, vv) in enumerate(a):
                for c in _children(vv)[:4]:
                    out.append({'m': a[:i] + [[kk, c]] + a[i + 1:]})
        elif k in ('A', 'R', 'Rm'):
            out.append(a[0])
            if k != 'A' and a[1] > 2:
                out.append({k: [a[0], 2]})
        elif k == 's' and len(a) > 1:
            out.append({'S': ['a', len(a.encode('utf-8'))]})
    return out


def _violates(spec, clause):
    acc = Acc()
    try:
        run_value(acc, spec, 'quick', prng.rng('c14-shrink'), True, nalt=0, limit=1024)
    except Exception:
        return None
    for v in acc.violations:
        if _clause(v['sig']) == clause:
            return v
    return None


def shrink(case, sig):
    if case.get('kind') == 'sequence':
        from sim import ddmin

        def bad(ops):
            a = Acc()
            try:
                fresh_codec()      # every candidate history starts from a clean codec, as its replay will
                run_sequence(a, ops)
            except Exception:
                return False
            return any(_clause(v['sig']) == _clause(sig) for v in a.violations)
        if not bad(case['ops']):
            return case
        ops = ddmin.ddmin(case['ops'], bad, ddmin.Budget(200))
        a = Acc()
        fresh_codec()
        run_sequence(a, ops)
        v = a.violations[0]
        return v['case'], v['sig'], v['detail']
    if case.get('kind') != 'value':
        return case
    clause = _clause(sig)
    best = _violates(case['spec'], clause)
    if best is None:
        return case          # only reproducible with its recorded formats/cut: keep as is
    spec = case['spec']
    budget = 400
    progress = True
    while progress and budget > 0:
        progress = False
        for cand in _children(spec):
            budget -= 1
            if budget <= 0:
                break
            v = _violates(cand, clause)
            if v is not None:
                spec, best, progress = cand, v, True
                break
    return best['case'], best['sig'], best['detail']
