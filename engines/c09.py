"""C09 - a long-lived project answers exactly like a fresh one (cache transparency).

History engine.  The project directory is the disk, modification times are the clock, the editor saving files is
the fault injector (including saves that land between two I/O calls of one request), and the Project held by a
real server.Server is the node whose cache must stay transparent.  After every request the same request is put
to a Server created at that moment on the same disk state."""
import copy
import os
import shutil

from sim import prng, idhash, ddmin
from sim.fsclock import FsSeam, MtimeClock
from gen import project as G

import supp.scope
import supp.server as S

PROPERTY = 'C09'
LEVEL = 'exploration'
BUDGET_S = {'quick': 110, 'thorough': 1700}
UNIT_TIMEOUT_S = 1200

RULE = ('One evaluation = one history over a generated project (3-6 modules, 1-2 packages, import / from-import / '
        'star-import / relative / re-export edges, chains up to length 4) on a scratch disk: operations create-module, '
        'rewrite-with-new-mtime (versioned content), touch, revert-to-older-content, request (assist / location / lint '
        'through server.Server, i.e. inside check_changes) aimed at names of the edited module reached directly and '
        'through unchanged importers; faults: mtime steps from 1 ms to days incl. backward jumps and sub-second steps, '
        'edit storms, edits of not-yet-loaded modules, and edits applied between two I/O calls of a running request '
        '(that request is not compared, every later one is). Thorough adds every operation-kind sequence up to length 4 '
        'on a fixed 4-module chain. Non-trivial = at least one edit precedes a compared request; distinct = distinct '
        'event-log digests (operations, I/O counts, normalised answers).')
ASSUMPTIONS = [
    'the private scratch file system honours os.utime with nanosecond stamps; mtimes are floats with ~0.5 us resolution, '
    'the smallest simulated step is 1 ms',
    'os.stat / os.listdir / open wrappers see every file access supp makes under the project root (a run whose wrappers '
    'saw no call is a harness error)',
    'a file never gets a modification time it already had; files are never deleted; __init__.py is never removed; '
    'no module shadows an already resolved one from an earlier root (all outside the property\'s domain)',
    'no I/O errors are injected: a fresh project would fail too',
]
REAL = ['supp/server.py Server.configure/assist/location/lint (check_changes wrapping)', 'supp/project.py, module.py and the analyser',
        'real files in a per-worker scratch directory']
STUB = ['mtime clock (os.utime from the simulator)', 'os.stat/os.listdir/open wrappers as decision points',
        'fresh Server/Project per compared request as the model']

SCRATCH = None
DTS_MS = [1, 10, 300, 999, 1000, 1500, 60000, 86400000, 3 * 86400000, -500, -1000, -3600000, -86400000]


def worker_init():
    global SCRATCH
    from sim.fakes import quiet_logging
    quiet_logging()
    SCRATCH = os.path.join(os.environ.get('VERIF_SCRATCH', '/tmp'), 'vsim-c09-%08d' % (os.getpid() % 10 ** 8))
    import atexit
    atexit.register(lambda: shutil.rmtree(SCRATCH, ignore_errors=True))


# ---------------------------------------------------------------- case generation

def late_module(name, version, init=False):
    s = name.rpartition('.')[2]
    extra = {'init': True} if init else {}      # created as a package (name/__init__.py) instead of name.py
    return {'name': name, 'version': version, 'iface': {'classes': ['KL_' + s], 'funcs': [], 'insts': [], 'multis': []},
            **extra,
            'items': [['class', 'KL_' + s, [], ['cl_%s_v%d' % (s, version)], [['ml_' + s, []]]],
                      ['assign', 'xl_%s_v%d' % (s, version), str(version)]]}


def late_names(spec):
    """Modules that do not exist yet but are already referred to (optional imports, package attributes)."""
    mods = spec['modules']
    late = [it[1] for m in mods for it in m['items'] if it[0] == 'tryimport' and not any(x_['name'] == it[1] for x_ in mods)]
    late += [it[1] + '.' + it[2] for m in mods for it in m['items']
             if it[0] in ('tryfrom', 'tryfromsub') and not any(x_['name'] == it[1] + '.' + it[2] for x_ in mods)]
    late += [m['name'] + '.' + a for m in mods if m.get('init') for a in (m['iface'].get('attrs') or [])
             if not any(x_['name'] == m['name'] + '.' + a for x_ in mods)]
    return late


def gen_edit(r, spec, state, allow_backward=True):
    """One edit operation against the current spec; returns (op, new spec)."""
    mods = spec['modules']
    x = r.random()
    dts = DTS_MS if allow_backward else [d for d in DTS_MS if d > 0]
    dt = r.choice(dts)
    late = [it[1] for m in mods for it in m['items'] if it[0] == 'tryimport' and not any(x_['name'] == it[1] for x_ in mods)]
    late += [it[1] + '.' + it[2] for m in mods for it in m['items']
             if it[0] in ('tryfrom', 'tryfromsub') and not any(x_['name'] == it[1] + '.' + it[2] for x_ in mods)]
    # a sub-module that takes the name of an attribute the package already defines
    late += [m['name'] + '.' + a for m in mods if m.get('init') for a in (m['iface'].get('attrs') or [])
             if not any(x_['name'] == m['name'] + '.' + a for x_ in mods)]
    dirs = state.setdefault('dirs', [])
    pending = [d for d in dirs if d in late]
    if pending and 0.12 <= x < 0.3:
        # the directory that appeared earlier becomes a package (or is shadowed by a module of that name)
        mod = late_module(pending[0], 1, init=r.random() < 0.85)
        return {'op': 'create', 'newmod': mod, 'dt_ms': dt}, {'modules': mods + [mod]}
    if x < 0.12 and late:
        nm = r.choice(late)
        if '.' not in nm and nm not in dirs and r.random() < 0.35:
            # the directory of a future package appears first, with a module in it but without __init__.py
            dirs.append(nm)
            return {'op': 'create_file', 'module': nm, 'rel': nm + '/zqin.py', 'text': 'zqin_%s = 1\n' % nm, 'dt_ms': dt,
                    # a second module of the future package, importing the first one relatively
                    'more': [[nm + '/zqrel.py', 'from .zqin import *\nzqrel_%s = zqin_%s\n' % (nm, nm)]]}, spec
        mod = late_module(nm, 1, init=r.random() < (0.85 if nm in dirs else 0.4))
        return {'op': 'create', 'newmod': mod, 'dt_ms': dt, 'same_tick': r.random() < 0.3}, {'modules': mods + [mod]}
    if x < 0.18 and state['created'] < 2:
        state['created'] += 1
        k = state['created']
        if r.random() < 0.5:
            nm = 'zqnew%d' % k
            base = {'name': nm, 'version': 0, 'iface': {'classes': ['K0_' + nm], 'funcs': ['f0_' + nm], 'insts': [], 'multis': []}, 'items': []}
            mod = G.fill_module(r, base, mods)
            return {'op': 'create', 'newmod': mod, 'dt_ms': dt}, {'modules': mods + [mod]}
        pk = {'name': 'zqp%d' % k, 'version': 1, 'iface': {'classes': [], 'funcs': [], 'insts': [], 'multis': []}, 'items': [], 'init': True}
        nm = 'zqp%d.zqm' % k
        base = {'name': nm, 'version': 0, 'iface': {'classes': ['K0_zqm%d' % k], 'funcs': [], 'insts': [], 'multis': []}, 'items': []}
        mod = G.fill_module(r, base, mods)
        return {'op': 'create', 'newmods': [pk, mod], 'dt_ms': dt}, {'modules': mods + [pk, mod]}
    idx = r.randrange(len(mods))
    m = mods[idx]
    if x < 0.30:
        return {'op': 'touch', 'module': m['name'], 'dt_ms': dt}, spec
    if x < 0.40 and state['history'].get(m['name']):
        old = r.choice(state['history'][m['name']])
        new = {'modules': mods[:idx] + [old] + mods[idx + 1:]}
        op = {'op': 'revert', 'module': m['name'], 'newmod': old, 'dt_ms': dt}
        if allow_backward and r.random() < 0.2:
            op['reuse'] = r.random()    # restored together with an old modification time (rsync -t, tar x)
        return op, new
    nm = G.mutate_module(r, spec, idx)
    if r.random() < 0.05 and not m.get('init'):
        # a save in the middle of typing: the file does not parse (a fresh project sees the same broken file)
        nm = dict(nm, items=nm['items'] + [['raw', ['def zqbroken(:', '    pass']]])
    if G.short(m['name']).startswith(('zqlate_', 'zqlsub_', 'zqattr_')):
        nm = late_module(m['name'], m['version'] + 1, m.get('init', False))
    # version numbers only grow, also after a revert
    top = max([m['version']] + [h['version'] for h in state['history'].get(m['name'], [])])
    if nm['version'] <= top:
        nm = _reversion(r, spec, idx, top + 1)
    new = {'modules': mods[:idx] + [nm] + mods[idx + 1:]}
    op = {'op': 'rewrite', 'module': m['name'], 'newmod': nm, 'dt_ms': dt}
    if allow_backward and r.random() < 0.2:
        op['reuse'] = r.random()        # the file gets one of its older modification times back
    return op, new


def _reversion(r, spec, idx, version):
    m = dict(spec['modules'][idx], version=version - 1)
    if G.short(m['name']).startswith(('zqlate_', 'zqlsub_', 'zqattr_')):
        return late_module(m['name'], version, m.get('init', False))
    tmp = {'modules': spec['modules'][:idx] + [m] + spec['modules'][idx + 1:]}
    return G.mutate_module(r, tmp, idx)


def gen_case(seed, i, mode='main'):
    r = prng.rng('c09', seed, mode, i)
    spec = G.gen_project(r)
    nops = r.choice((3, 4, 6, 8, 12, 20, 40))
    storm = r.random() < 0.3
    mid_rate = r.choice((0.0, 0.0, 0.15, 0.4))
    backward = r.random() < 0.6
    fault_rate = r.choice((0.0, 0.0, 0.1, 0.3))
    state = {'created': 0, 'history': {}}
    ops = []
    cur = spec
    last_edit = None
    nreq = 0
    for j in range(nops):
        want_edit = r.random() < (0.7 if storm else 0.45)
        if want_edit or not ops:
            before = cur
            op, cur = gen_edit(r, cur, state, backward)
            if op['op'] in ('rewrite', 'revert'):
                old = next(m for m in before['modules'] if m['name'] == op['module'])
                state['history'].setdefault(op['module'], []).append(old)
            ops.append(op)
            last_edit = op.get('module') or (op.get('newmod') or op['newmods'][-1])['name']
            if op['op'] == 'create_file' and r.random() < 0.6:
                # the usual way a package comes into being while the editor is open: directory and first module,
                # a look at it, then the __init__.py, another look
                nm = op['module']
                inside = r.choice((0, 1, 2))
                for step in range(2):
                    q = G.gen_request(r, cur, uid='q%d' % nreq, origin=nm)
                    if inside == 2:
                        # a module of the directory that imports its neighbour relatively is reached by its full name
                        # from outside (fails as "not a package" until the __init__.py exists)
                        kind = q['kind']
                        q = {'kind': kind, 'file': 'zqmain.py',
                             'source': {'assist': 'import %s.zqrel\n%s.zqrel.\n' % (nm, nm),
                                        'location': 'from %s.zqrel import zqin_%s\nzr = zqin_%s\n' % (nm, nm, nm),
                                        'lint': 'from %s.zqrel import *\nprint(zqin_%s, zqrel_%s)\n' % (nm, nm, nm)}[kind],
                             'position': {'assist': [2, len(nm) + 7], 'location': [2, 6 + len('zqin_' + nm)], 'lint': None}[kind]}
                    elif inside:
                        # the buffer being edited lives in that directory and imports its neighbour relatively
                        # ("not a package" until the __init__.py exists)
                        q = {'kind': q['kind'], 'file': nm + '/zqmain_rel.py', 'position': [2, 5] if q['kind'] != 'lint' else None,
                             'source': 'from . import zqin\nzqin.zqin_%s\n' % nm if q['kind'] != 'location' else
                                       'from .zqin import zqin_%s\nzr = zqin_%s\n' % (nm, nm)}
                        if q['kind'] == 'location':
                            q['position'] = [2, 6 + len('zqin_' + nm)]
                    nreq += 1
                    ops.append({'op': 'request', 'req': {'kind': q['kind'], 'source': q['source'], 'position': q['position'],
                                                         'file': q['file'], 'indirect': q.get('indirect', False)}})
                    if step == 0:
                        mod = late_module(nm, 1, init=True)
                        cur = {'modules': cur['modules'] + [mod]}
                        ops.append({'op': 'create', 'newmod': mod, 'dt_ms': r.choice(DTS_MS)})
                continue
            if not (j == 0 and r.random() < 0.5):
                continue
        origin = last_edit if (last_edit and r.random() < 0.75) else None
        lates = late_names(cur)
        if lates and r.random() < 0.3:
            origin = r.choice(lates)       # look at a name whose module may be created later
        q = G.gen_request(r, cur, uid='q%d' % nreq, origin=origin, target=origin if r.random() < 0.3 else None)
        nreq += 1
        op = {'op': 'request', 'req': {'kind': q['kind'], 'source': q['source'], 'position': q['position'], 'file': q['file'], 'indirect': q.get('indirect', False)}}
        if r.random() < mid_rate and r.random() < 0.5:
            # the editor saves exactly the file supp is looking at: a new version of every module is prepared, the
            # one whose file is accessed at the chosen I/O call is written
            alts = {}
            mods2 = list(cur['modules'])
            for mi, m in enumerate(cur['modules']):
                if G.short(m['name']).startswith(('zqlate_', 'zqlsub_', 'zqattr_')):
                    nm = late_module(m['name'], m['version'] + 1, m.get('init', False))
                else:
                    top = max([m['version']] + [h['version'] for h in state['history'].get(m['name'], [])])
                    nm = _reversion(r, cur, mi, top + 1)
                alts[m['name']] = nm
            op['mid'] = {'at': r.choice((0, 1, 2, 3, 4, 5, 6, 8, 10, 13, 17)), 'when': r.choice(('stat', 'open', 'any', 'stat_after_open')),
                         'edit': {'op': 'rewrite_accessed', 'alts': alts, 'dt_ms': r.choice(DTS_MS)}}
            op['mid_spec_after'] = True
            ops.append(op)
            # which module gets rewritten is known only at run time: later requests are generated against the
            # interface (stable names), and the engine tracks the real content
            last_edit = None
            continue
        if r.random() < fault_rate:
            if r.random() < 0.6:
                op['io_error'] = {'at': r.choice((0, 1, 2, 3, 4, 6, 9, 13, 20)), 'errno': r.choice((5, 13, 24)),
                                  'when': r.choice(('any', 'any', 'open', 'stat', 'listdir'))}
            else:
                op['stack'] = r.choice((30, 40, 50, 60, 80, 100, 130, 170, 220, 300))
            ops.append(op)
            continue
        if r.random() < mid_rate:
            e, cur2 = gen_edit(r, cur, state, backward)
            if e['op'] in ('rewrite', 'revert'):
                old = next(m for m in cur['modules'] if m['name'] == e['module'])
                state['history'].setdefault(e['module'], []).append(old)
            cur = cur2
            op['mid'] = {'at': r.choice((0, 1, 2, 3, 5, 8, 13)), 'edit': e}
            last_edit = e.get('module') or (e.get('newmod') or e['newmods'][-1])['name']
        ops.append(op)
    # always end with requests that look at the last edit
    for _ in range(r.choice((1, 2))):
        q = G.gen_request(r, cur, uid='q%d' % nreq, origin=last_edit)
        nreq += 1
        ops.append({'op': 'request', 'req': {'kind': q['kind'], 'source': q['source'], 'position': q['position'], 'file': q['file'], 'indirect': q.get('indirect', False)}})
    return {'spec': spec, 'ops': ops, 'idhash_seed': r.getrandbits(31), 'warm': r.choice((True, True, 'together', 'together', False))}


def gen_large_case(seed, i):
    """A long session in a large project: several hundred modules are looked up before a module that is reached only
    through an unchanged importer is rewritten (bounded caches, eviction and the like only show at this scale)."""
    r = prng.rng('c09-large', seed, i)
    n = (260, 300, 520, 1030)[i % 4] + r.randrange(0, 8)

    def cls(name, tag):
        return ['class', name, [], ['ca_' + tag], [['me_' + name, ['sa_' + tag]]]]
    leaf = {'name': 'zqleaf', 'version': 1, 'iface': {'classes': ['K0_zqleaf'], 'funcs': [], 'insts': [], 'multis': []},
            'items': [cls('K0_zqleaf', 'zqleaf_v1'), ['assign', 'x_zqleaf_v1', '1']]}
    hub = {'name': 'zqhub', 'version': 1, 'iface': {'classes': ['K0_zqhub'], 'funcs': [], 'insts': [], 'multis': []},
           'items': [['star', 'zqleaf'], ['tryimport', 'zqlate_zqhub'],
                     ['class', 'K0_zqhub', ['K0_zqleaf'], ['ca_zqhub_v1'], []], ['assign', 'x_zqhub_v1', '1']]}
    mods = [leaf, hub]
    for j in range(n):
        nm = 'zqo%04d' % j
        mods.append({'name': nm, 'version': 1, 'iface': {'classes': [], 'funcs': [], 'insts': [], 'multis': []},
                     'items': [['assign', 'x_%s' % nm, str(j)]]})
    look = {'kind': 'assist', 'source': 'from zqhub import *\nK0_zqhub().\n', 'position': [2, 11], 'file': 'zqmain.py'}
    ops = [{'op': 'request', 'req': look},
           # the optional import of the hub is looked at (and fails) long before the module appears
           {'op': 'request', 'req': {'kind': 'assist', 'source': 'import zqhub\nzqhub.zqlate_zqhub.\n', 'position': [2, 19],
                                     'file': 'zqmain.py'}}]
    order = list(range(n))
    r.shuffle(order)
    for j in order:
        nm = 'zqo%04d' % j
        ops.append({'op': 'request', 'compare': False,
                    'req': {'kind': 'assist', 'source': 'from zqhub import *\nimport %s\n%s.\n' % (nm, nm),
                            'position': [3, len(nm) + 1], 'file': 'zqmain.py'}})
    if i % 2 == 1 or r.random() < 0.25:
        # after hundreds of quiet requests the optional module of the hub appears (nothing else changes)
        ops.append({'op': 'create', 'newmod': late_module('zqlate_zqhub', 1, init=r.random() < 0.4), 'dt_ms': r.choice((1000, 60000))})
        ops.append({'op': 'request', 'req': {'kind': 'assist', 'source': 'import zqhub\nzqhub.zqlate_zqhub.\n', 'position': [2, 19],
                                             'file': 'zqmain.py'}})
        ops.append({'op': 'request', 'req': {'kind': 'location', 'source': 'from zqhub import zqlate_zqhub\nzr = zqlate_zqhub.KL_zqlate_zqhub\n',
                                             'position': [2, 20], 'file': 'zqmain.py'}})
    leaf2 = copy.deepcopy(leaf)
    leaf2['version'] = 2
    leaf2['items'] = _retag(leaf2['items'], 'zqleaf_v1', 'zqleaf_v2')
    ops.append({'op': 'rewrite', 'module': 'zqleaf', 'newmod': leaf2, 'dt_ms': r.choice((1000, 1500, 60000, -1000))})
    ops.append({'op': 'request', 'req': look})
    ops.append({'op': 'request', 'req': {'kind': 'location', 'source': 'from zqhub import *\nzr = K0_zqleaf\n',
                                         'position': [2, 12], 'file': 'zqmain.py'}})
    return {'spec': {'modules': mods}, 'ops': ops, 'idhash_seed': 0, 'warm': False}


def chain_spec():
    """Fixed 4-module chain used by the enumerated short histories: zqa <- zqb <- zqc <- zqd, mixed edge kinds."""
    def cls(name, tag):
        return ['class', name, [], ['ca_' + tag], [['me_' + name, ['sa_' + tag]]]]
    mods = [
        {'name': 'zqa', 'version': 1, 'iface': {'classes': ['K0_zqa'], 'funcs': ['f0_zqa'], 'insts': [], 'multis': []},
         'items': [cls('K0_zqa', 'zqa_v1'), ['func', 'f0_zqa', 'K0_zqa()'], ['assign', 'x_zqa_v1', '1']]},
        {'name': 'zqb', 'version': 1, 'iface': {'classes': ['K0_zqb'], 'funcs': [], 'insts': ['i0_zqb'], 'multis': []},
         'items': [['star', 'zqa'], ['class', 'K0_zqb', ['K0_zqa'], ['ca_zqb_v1'], [['me_K0_zqb', ['sa_zqb_v1']]]],
                   ['assign', 'i0_zqb', 'f0_zqa()'], ['assign', 'x_zqb_v1', '1']]},
        {'name': 'zqc', 'version': 1, 'iface': {'classes': [], 'funcs': [], 'insts': [], 'multis': []},
         'items': [['import', 'zqb', None], ['from', 'zqb', 'K0_zqb', 'r_K0_zqb'], ['assign', 'x_zqc_v1', '1']]},
        {'name': 'zqd', 'version': 1, 'iface': {'classes': ['K0_zqd'], 'funcs': [], 'insts': [], 'multis': []},
         'items': [['from', 'zqc', 'r_K0_zqb', None], ['import', 'zqc', None],
                   ['class', 'K0_zqd', ['r_K0_zqb'], ['ca_zqd_v1'], []], ['assign', 'x_zqd_v1', '1']]},
    ]
    return {'modules': mods}


CHAIN_REQS = [
    {'kind': 'assist', 'source': 'import zqd\nzqd.K0_zqd().\n', 'position': [2, 13], 'file': 'zqmain.py'},
    {'kind': 'assist', 'source': 'import zqd\nzqd.zqc.zqb.\n', 'position': [2, 12], 'file': 'zqmain.py'},
    {'kind': 'assist', 'source': 'from zqc import *\nzqb.i0_zqb.\n', 'position': [2, 11], 'file': 'zqmain.py'},
    {'kind': 'location', 'source': 'import zqd\nzr = zqd.r_K0_zqb.ca_zqa_v1\n', 'position': [2, 24], 'file': 'zqmain.py'},
    {'kind': 'lint', 'source': 'from zqb import *\nprint(x_zqa_v1, x_zqa_v2, x_zqb_v1, x_zqb_v2, K0_zqa)\n', 'position': None, 'file': 'zqmain.py'},
    {'kind': 'assist', 'source': 'import zqb\nzqb.\n', 'position': [2, 4], 'file': 'zqmain.py'},
]


def gen_chain_case(seed, i):
    """Histories of up to 4 operations over {rewrite a/b/c/d, touch a, request k} enumerated by index."""
    kinds = ['rw:zqa', 'rw:zqb', 'rw:zqc', 'rw:zqd', 'touch:zqa', 'rq:0', 'rq:1', 'rq:2', 'rq:3', 'rq:4', 'rq:5']
    n = len(kinds)
    length = 1
    idx = i
    while idx >= n ** length and length < 4:
        idx -= n ** length
        length += 1
    idx %= n ** length
    seq = []
    for _ in range(length):
        seq.append(kinds[idx % n])
        idx //= n
    r = prng.rng('c09-chain', seed, i)
    spec = chain_spec()
    cur = spec
    ops = [{'op': 'request', 'req': CHAIN_REQS[r.randrange(len(CHAIN_REQS))]}] if r.random() < 0.7 else []
    for kname in seq:
        k, _, arg = kname.partition(':')
        if k == 'rq':
            ops.append({'op': 'request', 'req': CHAIN_REQS[int(arg)]})
        elif k == 'touch':
            ops.append({'op': 'touch', 'module': arg, 'dt_ms': r.choice(DTS_MS)})
        else:
            mi = next(j for j, m in enumerate(cur['modules']) if m['name'] == arg)
            m = cur['modules'][mi]
            v = m['version'] + 1
            nm = copy.deepcopy(m)
            nm['version'] = v
            nm['items'] = _retag(nm['items'], '%s_v%d' % (arg, m['version']), '%s_v%d' % (arg, v))
            cur = {'modules': cur['modules'][:mi] + [nm] + cur['modules'][mi + 1:]}
            ops.append({'op': 'rewrite', 'module': arg, 'newmod': nm, 'dt_ms': r.choice(DTS_MS)})
    for q in CHAIN_REQS:
        ops.append({'op': 'request', 'req': q})
    return {'spec': spec, 'ops': ops, 'idhash_seed': 0, 'warm': True}


def _retag(x, old, new):
    if isinstance(x, str):
        return x.replace(old, new)
    if isinstance(x, list):
        return [_retag(y, old, new) for y in x]
    return x


# ---------------------------------------------------------------- running a history

def ask(server, root, req):
    fn = os.path.join(root, req['file'])
    try:
        if req['kind'] == 'assist':
            out = server.assist(req['source'], list(req['position']), fn)
            out = [out[0], list(out[1])]
        elif req['kind'] == 'location':
            out = server.location(req['source'], list(req['position']), fn)
            out = _canon(out, root)
        else:
            out = [list(r) for r in server.lint(req['source'], fn)]
        return ['ok', out]
    except RecursionError:
        return ['exc', 'RecursionError', '']
    except Exception as e:
        return ['exc', type(e).__name__, str(e).replace(root, '<root>')[:300]]


def _canon(out, root):
    res = []
    for x in out:
        if isinstance(x, list):
            res.append(['ALTS'] + sorted([list(d['loc']), (d['file'] or '').replace(root, '<root>')] for d in x))
        else:
            res.append([list(x['loc']), (x['file'] or '').replace(root, '<root>')])
    return res


class History(object):
    def __init__(self, case):
        self.case = case
        self.root = os.path.join(SCRATCH, 'h')
        self.clock = MtimeClock()
        self.fs = FsSeam(self.root)
        self.vios = []
        self.faults = {}
        self.probes = {'edit_landed_inside_request': 0, 'edited_module_reached_indirectly': 0, 'mtime_moved_backwards': 0,
                       'subsecond_step': 0, 'request_after_edit_compared': 0, 'create_after_failed_import': 0,
                       'edit_of_unloaded_module': 0, 'package_directory_before_init': 0}
        self.log = prng.Log()
        self.dir_stamps = {}
        self.loaded = set()
        self.mtimes = {}

    def fault(self, k, n=1):
        self.faults[k] = self.faults.get(k, 0) + n

    def write(self, mod, dt_ms, reuse=None, same_tick=False):
        path = os.path.join(self.root, G.relpath(mod))
        stamp = self.clock.stamp(path, dt_ms, reuse)
        if reuse is not None and self.clock.reused:
            self.faults['mtime_returns_to_an_older_value'] = self.clock.reused
        prev = self.mtimes.get(path)
        if prev is not None:
            if stamp < prev:
                self.probes['mtime_moved_backwards'] += 1
                self.fault('mtime_backward_jump')
            if abs(stamp - prev) < 10 ** 9:
                self.probes['subsecond_step'] += 1
        self.mtimes[path] = stamp
        new = not os.path.exists(path)
        G.write_module(self.root, mod, stamp)
        if new:
            self.touch_dirs(path, stamp, same_tick)

    def touch_dirs(self, path, stamp, same_tick=False):
        """A new directory entry changes the modification time of the directory: that time, too, comes from the
        simulated clock (directories created on the way get the same stamp).  same_tick: the entry is made within
        the time stamp granularity of the last change of the directory, whose time therefore stays what it was."""
        d = os.path.dirname(path)
        while len(d) >= len(self.root):
            was_new = d not in self.dir_stamps
            if same_tick and not was_new:
                os.utime(d, ns=(self.dir_stamps[d], self.dir_stamps[d]))
                self.fault('created_within_directory_time_tick')
                break
            self.dir_stamps[d] = stamp
            os.utime(d, ns=(stamp, stamp))
            if not was_new:
                break           # an existing directory got a new entry: its parents do not change
            d = os.path.dirname(d)

    def apply_edit(self, op, accessed=None):
        k = op['op']
        if k == 'rewrite_accessed':
            # the module whose file is being accessed right now (if it is a project module)
            rel = os.path.relpath(str(accessed), self.root) if accessed else None
            target = next((m for m in self.current.values() if G.relpath(m) == rel), None)
            if target is None or target['name'] not in op['alts']:
                return False
            nm = op['alts'][target['name']]
            self.fault('edit_rewrite_of_accessed_file')
            self.current[target['name']] = nm
            self.write(nm, op['dt_ms'])
            self.edits_since_request += 1
            self.log.add('edit', k, target['name'], op['dt_ms'])
            return True
        self.fault('edit_' + k)
        if k == 'touch':
            mod = self.current[op['module']]
            self.write(mod, op['dt_ms'], op.get('reuse'))
        elif k in ('rewrite', 'revert'):
            self.current[op['module']] = op['newmod']
            self.write(op['newmod'], op['dt_ms'], op.get('reuse'))
        elif k == 'create_file':
            path = os.path.join(self.root, op['rel'])
            stamp = self.clock.stamp(path, op['dt_ms'])
            os.makedirs(os.path.dirname(path), exist_ok=True)
            with open(path, 'w') as f:
                f.write(op['text'])
            os.utime(path, ns=(stamp, stamp))
            self.touch_dirs(path, stamp)
            for rel, text in op.get('more') or []:
                path = os.path.join(self.root, rel)
                with open(path, 'w') as f:
                    f.write(text)
                os.utime(path, ns=(stamp, stamp))
            self.probes['package_directory_before_init'] += 1
        elif k == 'create':
            for mod in op.get('newmods') or [op['newmod']]:
                self.current[mod['name']] = mod
                self.write(mod, op['dt_ms'], same_tick=bool(op.get('same_tick')))
                if G.short(mod['name']).startswith(('zqlate_', 'zqlsub_', 'zqattr_')):
                    self.probes['create_after_failed_import'] += 1
        name = op.get('module') or (op.get('newmod') or op['newmods'][-1])['name']
        if name not in self.loaded:
            self.probes['edit_of_unloaded_module'] += 1
        self.edits_since_request += 1
        self.log.add('edit', k, name, op['dt_ms'])
        return True

    def run(self):
        case = self.case
        shutil.rmtree(self.root, ignore_errors=True)
        os.makedirs(self.root)
        self.current = {}
        for m in case['spec']['modules']:
            self.current[m['name']] = m
            self.write(m, 0 if len(self.current) == 1 else 1)
        self.edits_since_request = 0
        idhash.install(case.get('idhash_seed', 0))
        self.fs.install()
        try:
            supp.scope.builtin_scope.__dict__.pop('names', None)
            server = S.Server(None)
            server.configure({'sources': [self.root]})
            if case.get('warm') == 'together':
                src = ''.join('from %s import *\n' % m['name'] for m in case['spec']['modules']) + 'zq\n'
                ask(server, self.root, {'kind': 'lint', 'source': src, 'position': None, 'file': 'zqmain.py'})
                for m in case['spec']['modules']:
                    ask(server, self.root, {'kind': 'assist', 'source': src + '%s.\n' % m['name'].split('.')[0],
                                            'position': [len(case['spec']['modules']) + 2, len(m['name'].split('.')[0]) + 1],
                                            'file': 'zqmain.py'})
                self.loaded = set(server.project._module_cache)
            elif case.get('warm'):
                # an editing session usually starts with requests that load the whole project
                for m in case['spec']['modules']:
                    if not m.get('init'):
                        ask(server, self.root, {'kind': 'assist', 'source': 'import %s\n%s.\n' % (m['name'], m['name']),
                                                'position': [2, len(m['name']) + 1], 'file': 'zqmain.py'})
                self.loaded = set(server.project._module_cache)
            any_edit = False
            tainted_until_next = False
            for oi, op in enumerate(case['ops']):
                if op['op'] != 'request':
                    self.apply_edit(op)
                    any_edit = True
                    continue
                req = op['req']
                mid = op.get('mid')
                landed = {'done': False}
                if mid:
                    def hook(kind, path, idx, mid=mid, landed=landed):
                        when = mid.get('when', 'any')
                        hit = when == 'any' or when == kind or (when == 'stat' and kind == 'stat_after_open')
                        if when == 'stat_after_open':
                            hit = kind == 'stat_after_open'     # wherever it comes, not before a given index
                        elif idx < mid['at']:
                            hit = False
                        if not landed['done'] and hit:
                            if self.apply_edit(mid['edit'], accessed=path):
                                landed['done'] = True
                                self.probes['edit_landed_inside_request'] += 1
                                self.fault('edit_during_request')
                    self.fs.hook = hook
                ioerr = op.get('io_error')
                fired = {'n': 0}
                if ioerr and not mid:
                    # a read of the project's files fails once (EIO on a network disk, EACCES while another program
                    # holds the file, EMFILE): this request may fail or answer less, the disk state is what it was
                    def hook(kind, path, idx, ioerr=ioerr, fired=fired):
                        if not fired['n'] and idx - io0 >= ioerr['at'] and ioerr.get('when', 'any') in ('any', kind):
                            fired['n'] = 1
                            self.fault('io_error_%s_errno%d' % (kind, ioerr['errno']))
                            raise OSError(ioerr['errno'], os.strerror(ioerr['errno']), str(path))
                    self.fs.hook = hook
                io0 = self.fs.calls
                self.clock.request_starts()
                self.fs.opened.clear()
                if op.get('stack') and not mid and not ioerr:
                    # the request runs out of stack at some depth (see C04): it may fail, later ones must not notice
                    got = with_stack_limit(op['stack'], lambda: ask(server, self.root, req))
                    self.fault('request_with_short_stack')
                    fired['n'] = 1
                else:
                    got = ask(server, self.root, req)
                self.fs.hook = None
                nio = self.fs.calls - io0
                deferred = mid['edit'] if (mid and not landed['done'] and mid['edit']['op'] != 'rewrite_accessed') else None
                self.loaded = set(server.project._module_cache)
                if landed['done']:
                    # either version, or a mixture, is acceptable for the request an edit landed in
                    self.log.add('request', oi, req['kind'], 'not-compared', nio)
                    any_edit = True
                    continue
                if fired['n']:
                    self.log.add('request', oi, req['kind'], 'faulted', nio, prng.digest(got))
                    continue
                if op.get('compare') is False:
                    # filler request of a long session: it only has to load its modules
                    self.log.add('request', oi, req['kind'], 'filler', nio)
                    continue
                # the model: a server created now, on the same disk state
                self.fs.hook = None
                supp.scope.builtin_scope.__dict__.pop('names', None)
                fresh_server = S.Server(None)
                fresh_server.configure({'sources': [self.root]})
                exp = ask(fresh_server, self.root, req)
                supp.scope.builtin_scope.__dict__.pop('names', None)
                self.log.add('request', oi, req['kind'], prng.digest(got), nio)
                if any_edit:
                    self.probes['request_after_edit_compared'] += 1
                    if req.get('indirect'):
                        self.probes['edited_module_reached_indirectly'] += 1
                if got != exp and 'RecursionError' not in (got[1], exp[1]):
                    self.vios.append({
                        'sig': 'C09/stale/%s' % req['kind'],
                        'detail': 'operation %d: %s %r at %r after %d edits since the previous request: long-lived project answers %s, '
                                  'a fresh project answers %s' % (oi, req['kind'], req['source'], req['position'],
                                                                  self.edits_since_request, _b(got), _b(exp)),
                        'op_index': oi})
                    break
                self.edits_since_request = 0
                if deferred is not None:
                    # the request made fewer I/O calls than planned: the save happens right after it
                    self.apply_edit(deferred)
                    any_edit = True
            if self.fs.calls == 0:
                raise RuntimeError('harness: the I/O wrappers saw no call')
        finally:
            self.fs.uninstall()
            idhash.uninstall()
            shutil.rmtree(self.root, ignore_errors=True)
        return self


def with_stack_limit(frames, fn):
    import sys
    f = sys._getframe()
    depth = 0
    while f is not None:
        depth += 1
        f = f.f_back
    old = sys.getrecursionlimit()
    sys.setrecursionlimit(depth + frames)
    try:
        return fn()
    finally:
        sys.setrecursionlimit(old)


def _b(x):
    r = repr(x)
    return r if len(r) < 600 else r[:600] + '...'


def run_case(case):
    h = History(case).run()
    return {'violations': h.vios, 'digest': h.log.digest(), 'faults': h.faults, 'probes': h.probes,
            'io_calls': h.fs.calls, 'mtime_span_s': (h.clock.hi - h.clock.lo) / 1e9}


# ---------------------------------------------------------------- units

def plan(tier, seed, scale=1.0):
    n = int((4800 if tier == 'quick' else 220000) * scale)
    nchain = int((0 if tier == 'quick' else 16104) * scale)     # 11 + 11^2 + 11^3 + 11^4
    nchain_quick = int(400 * scale) if tier == 'quick' else 0
    per = 40 if tier == 'quick' else 400
    units = []
    for i in range(0, n, per):
        units.append({'kind': 'runs', 'mode': 'main', 'seed': seed, 'first': i, 'count': min(per, n - i)})
    for i in range(0, nchain, per):
        units.append({'kind': 'runs', 'mode': 'chain', 'seed': seed, 'first': i, 'count': min(per, nchain - i)})
    nlarge = int((4 if tier == 'quick' else 48) * scale) or 1
    for i in range(nlarge):
        units.append({'kind': 'runs', 'mode': 'large', 'seed': seed, 'first': i, 'count': 1})
    if nchain_quick:
        # quick: all histories of length <= 2 and a seeded sample of the longer ones
        r = prng.rng('c09-chainpick', seed)
        pick = list(range(132)) + [132 + r.randrange(15972) for _ in range(nchain_quick - 132)]
        for i in range(0, len(pick), per):
            units.append({'kind': 'runs', 'mode': 'chain', 'seed': seed, 'indices': pick[i:i + per]})
    return units


def selftest_units(tier, seed):
    return ([{'kind': 'runs', 'mode': 'main', 'seed': seed, 'first': i, 'count': 1} for i in range(30)] +
            [{'kind': 'runs', 'mode': 'chain', 'seed': seed, 'indices': [5, 77, 901, 4000]}])


def case_of(unit, i):
    if unit['mode'] == 'chain':
        return gen_chain_case(unit['seed'], i)
    if unit['mode'] == 'large':
        return gen_large_case(unit['seed'], i)
    return gen_case(unit['seed'], i, unit['mode'])


def run_unit(unit):
    if unit['kind'] == 'case':
        res = run_case(_strip(unit['case']))
        return {'evals': 1, 'keys': [], 'faults': res['faults'], 'probes': res['probes'],
                'violations': [{'sig': v['sig'], 'case': unit['case'], 'detail': v['detail']} for v in res['violations'][:1]],
                'digest': res['digest']}
    keys = set()
    faults = {}
    probes = {}
    vios = []
    samples = []
    io = 0
    span = 0.0
    log = prng.Log()
    idxs = unit.get('indices') or range(unit['first'], unit['first'] + unit['count'])
    for n, i in enumerate(idxs):
        case = case_of(unit, i)
        res = run_case(case)
        log.add(i, res['digest'])
        io += res['io_calls']
        span = max(span, res['mtime_span_s'])
        for kf, x in res['faults'].items():
            faults[kf] = faults.get(kf, 0) + x
        for kp, x in res['probes'].items():
            probes[kp] = probes.get(kp, 0) + x
        if res['probes'].get('request_after_edit_compared'):
            keys.add(int(res['digest'], 16) & 0xffffffffffff)
        if res['violations'] and len(vios) < 4:
            v = res['violations'][0]
            c = dict(case, origin={'seed': unit['seed'], 'mode': unit['mode'], 'run': i})
            vios.append({'sig': v['sig'], 'case': c, 'detail': v['detail']})
        if n == 0 and (unit.get('first') == 0 or unit.get('indices')) and len(samples) < 1:
            samples.append({'run': i, 'mode': unit['mode'], 'modules': [m['name'] for m in case['spec']['modules']],
                            'ops': [_brief_op(o) for o in case['ops'][:10]], 'io_calls': res['io_calls'],
                            'mtime_span_seconds': res['mtime_span_s']})
    return {'evals': len(idxs), 'keys': sorted(keys), 'faults': faults, 'probes': probes, 'violations': vios,
            'samples': samples, 'digest': log.digest(),
            'extra': {'io_calls_under_project_root': io, 'max_mtime_span_seconds': span}}


def _brief_op(o):
    if o['op'] == 'request':
        d = {'op': 'request', 'kind': o['req']['kind'], 'source': o['req']['source'][:120], 'position': o['req']['position']}
        if o.get('mid'):
            d['edit_during_request'] = {'at_io_call': o['mid']['at'], 'when': o['mid'].get('when', 'any'),
                                        'edit': _brief_op(o['mid']['edit'])}
        return d
    d = {'op': o['op'], 'dt_ms': o['dt_ms']}
    if o['op'] == 'rewrite_accessed':
        d['modules_prepared'] = sorted(o['alts'])
    if 'module' in o:
        d['module'] = o['module']
    if 'newmod' in o:
        d['new_version'] = o['newmod']['version']
        d['module'] = o['newmod']['name']
    if 'newmods' in o:
        d['modules'] = [m['name'] for m in o['newmods']]
    return d


def _strip(case):
    return {k: v for k, v in case.items() if k != 'origin'}


# ---------------------------------------------------------------- replay / shrink

def replay_case(case):
    if SCRATCH is None:
        worker_init()
    return run_case(_strip(case))['violations']


def shrink(case, sig):
    if SCRATCH is None:
        worker_init()
    base = _strip(copy.deepcopy(case))

    def bad(c):
        try:
            return any(v['sig'] == sig for v in run_case(c)['violations'])
        except Exception:
            return False
    if not bad(base):
        return case
    # cut after the failing request
    res = run_case(base)
    oi = res['violations'][0]['op_index']
    c = dict(base, ops=base['ops'][:oi + 1])
    if bad(c):
        base = c
    budget = ddmin.Budget(200)
    # the last operation is the failing request: keep it, shrink what comes before
    last = base['ops'][-1]
    head = ddmin.ddmin(base['ops'][:-1], lambda ops: bad(dict(base, ops=ops + [last])), budget)
    base = dict(base, ops=head + [last])
    if base.get('warm') and budget.take():
        c = dict(base, warm=False)
        if bad(c):
            base = c
    o_i = 0
    while o_i < len(base['ops']):
        if base['ops'][o_i].get('mid') and base['ops'][o_i]['mid']['edit']['op'] != 'rewrite_accessed' and budget.take():
            c = copy.deepcopy(base)
            mid = c['ops'][o_i].pop('mid')
            c['ops'].insert(o_i + 1, mid['edit'])
            if bad(c):
                base = c
        o_i += 1
    for o in base['ops']:
        if 'dt_ms' in o and o['dt_ms'] != 1000 and budget.take():
            old = o['dt_ms']
            o['dt_ms'] = 1000
            if not bad(base):
                o['dt_ms'] = old
    # modules nobody needs, then items
    for mi in range(len(base['spec']['modules']) - 1, -1, -1):
        if not budget.take():
            break
        c = copy.deepcopy(base)
        name = c['spec']['modules'][mi]['name']
        del c['spec']['modules'][mi]
        c['ops'] = [o for o in c['ops'] if o.get('module') != name]
        if bad(c):
            base = c
    for mi in range(len(base['spec']['modules'])):
        base = ddmin.shrink_fields(base, [('spec', 'modules', mi, 'items')], bad, budget)
    return base
