"""C17 - deterministic output.

The nondeterminism is the iteration order of hash sets: of identity-hashed analysis objects (seam: sim/idhash.py,
a keyed hash - one seed is one choice of iteration order for every such set) and of strings (PYTHONHASHSEED, set
explicitly for helper interpreters).  One request is answered under K identity-hash seeds here, and under the
same seeds in a helper interpreter with another PYTHONHASHSEED; all answers must be equal as returned, and the
alternatives of a multiply-bound name must be listed in source order."""
import atexit
import copy
import json
import os
import shutil
import subprocess
import sys

from sim import prng, idhash
from gen import flowprog as F
from gen import project as G

from supp import assistant, linter
from supp.project import Project
import supp.scope

PROPERTY = 'C17'
LEVEL = 'exploration'
BUDGET_S = {'quick': 170, 'thorough': 1700}
UNIT_TIMEOUT_S = 1200
VERIF = os.path.dirname(os.path.dirname(os.path.abspath(__file__)))

RULE = ('One evaluation = one (program or project, request, configuration) answer, configuration = (identity-hash '
        'seed, PYTHONHASHSEED of the interpreter, fresh or reused project). Programs: generated flow programs biased to '
        'names with 2-6 alternative bindings of mixed kinds, and generated projects whose modules export such names, '
        'reached through imports; requests: location on every read with more than one alternative, lint, attribute '
        'completion and go-to-definition through the exporting module. A request is non-trivial if its answer contains '
        'a list of >= 2 alternatives or was computed through a multiply-bound exported name; distinct = distinct '
        '(program digest, request) pairs among those.')
ASSUMPTIONS = [
    'the keyed identity hash (sim/idhash.py) reaches every set of analysis objects whose order can leak (self-checked '
    'by the probe "orders_observed_ge_2" on the unrepaired tree kept as a mutant)',
    'PYTHONHASHSEED values are sampled (quick: 0 and three others, thorough: 0 and fifteen others)',
    'runs with the real address-based hash are not used: one seed is not one repeatable execution there',
]
REAL = ['supp/assistant.py location/assist, supp/linter.py lint, scope/name/evaluator/project/module (unmodified)']
STUB = ['__hash__ of supp.util.Location and supp.name.MultiName -> keyed hash of (seed, description)',
        'helper interpreters started with explicit PYTHONHASHSEED']

SCRATCH = None
_helpers = {}
# Name space of the case-determined scratch paths: the same for a pool worker, its helper interpreters and the replay
# of what they found (it is recorded in the replay file), different for the self-test interpreters and for checks of
# another tree that may run at the same time.
NS = os.environ.get('VERIF_C17_NS') or (
    prng.digest([os.environ.get('SUPP_REPO', '/repo'), os.environ.get('VERIF_OUT', '')])[:6] +
    os.environ.get('VERIF_NS_SUFFIX', ''))
os.environ['VERIF_C17_NS'] = NS


def worker_init():
    global SCRATCH
    from sim.fakes import quiet_logging
    quiet_logging()
    SCRATCH = os.path.join(os.environ.get('VERIF_SCRATCH', '/tmp'), 'vsim-c17-%08d' % (os.getpid() % 10 ** 8))
    atexit.register(_cleanup)


def _cleanup():
    for h in _helpers.values():
        try:
            h.stdin.close()
            h.wait(timeout=5)
        except Exception:
            h.kill()
    if SCRATCH:
        shutil.rmtree(SCRATCH, ignore_errors=True)


# ---------------------------------------------------------------- answering requests

def _norm(v, root):
    if isinstance(v, tuple):
        return [_norm(x, root) for x in v]
    if isinstance(v, list):
        return [_norm(x, root) for x in v]
    if isinstance(v, dict):
        return {k: _norm(x, root) for k, x in v.items()}
    if isinstance(v, str) and root:
        return v.replace(root, '<root>')
    return v


def ask(project, root, req):
    """One request, answered as returned (tuples become lists only for JSON transport)."""
    fn = os.path.join(root, req['file'])
    try:
        with project.check_changes():
            if req['kind'] == 'location':
                out = assistant.location(project, req['source'], tuple(req['position']), fn)
            elif req['kind'] == 'assist':
                out = assistant.assist(project, req['source'], tuple(req['position']), fn)
            elif req['kind'] == 'lint':
                out = [r[:4] for r in linter.lint(project, req['source'], fn)]
            elif req['kind'] == 'exports':
                m = project.get_module(req['module'])
                out = [[k, type(v).__name__, _norm(getattr(v, 'declared_at', None), None)]
                       for k, v in sorted(m._attrs.items())]
            else:
                raise ValueError(req['kind'])
        return ['ok', _norm(out, root)]
    except Exception as e:
        return ['exc', type(e).__name__, _norm(str(e), root)]


def materialise(case):
    # The directory name is a function of the case alone: path strings take part in the behaviour under test
    # (their hashes order any set they are put in), so the worker, its helper interpreters and a later replay
    # must all see the same paths.
    core = {k: v for k, v in case.items() if k in ('kind', 'prog', 'spec', 'spec_b', 'libs', 'strays', 'dup_root', 'path', 'requests', 'req_seed')}
    root = '/tmp/vsimc17-%s-%s' % (case.get('_ns') or NS, prng.digest(core))
    shutil.rmtree(root, ignore_errors=True)
    os.makedirs(root)
    if case['kind'] == 'project':
        if case.get('spec_b'):
            # two source roots; some module names exist in both (the first root must win, in every process)
            G.write_project(os.path.join(root, 'a'), case['spec'])
            G.write_project(os.path.join(root, 'b'), case['spec_b'])
        else:
            G.write_project(root, case['spec'])
        for rel in case.get('strays') or []:
            # left-overs next to the source file: byte code of another interpreter, an extension built in place
            # (the source file is the module, in every process)
            for base in ([os.path.join(root, 'a'), os.path.join(root, 'b')] if case.get('spec_b') else [root]):
                if os.path.exists(os.path.dirname(os.path.join(base, rel))):
                    with open(os.path.join(base, rel), 'wb') as f:
                        f.write(b'\x00stray ' + rel.encode())
        for k, lib in enumerate(case.get('libs') or []):
            # directories on sys.path that are not source roots (site-packages, PYTHONPATH entries); some module
            # names exist in more than one of them
            G.write_project(os.path.join(root, 'lib%d' % k), lib)
    return root


def lib_dirs(root, case):
    return [os.path.join(root, 'lib%d' % k) for k in range(len(case.get('libs') or []))]


def new_project(root, case):
    """The project a session would use: for two-root cases the one a real Server builds from the configuration."""
    if case.get('kind') == 'project' and case.get('spec_b'):
        import supp.server
        srv = supp.server.Server(None)
        roots = [os.path.join(root, 'a'), os.path.join(root, 'b')]
        if case.get('dup_root'):
            roots.append(roots[0])          # a root given twice (two plugins of the editor contribute the same one)
        srv.configure({'sources': roots})
        return srv.project
    return Project([root])


def real_files(tier):
    repo = os.path.dirname(os.path.dirname(os.path.abspath(supp.scope.__file__)))
    files = sorted(os.path.join(repo, 'supp', f) for f in os.listdir(os.path.join(repo, 'supp')) if f.endswith('.py'))
    if tier == 'thorough':
        files += sorted(os.path.join(repo, 'tests', f) for f in os.listdir(os.path.join(repo, 'tests')) if f.endswith('.py'))
        std = os.path.dirname(os.__file__)
        files += [os.path.join(std, f) for f in ('configparser.py', 'argparse.py', 'pty.py', 'cgi.py', 'shlex.py',
                                                  'textwrap.py', 'glob.py', 'fnmatch.py', 'getopt.py', 'cmd.py')
                  if os.path.exists(os.path.join(std, f))]
    return files


def answers(case, requests, idseeds, repeat=True):
    """{idseed: [answer per request, ...]} computed in this interpreter; with repeat=True every request is also
    asked a second time on the same project and once more on a fresh project (all must agree)."""
    root = materialise(case)
    out = {}
    syspath = list(sys.path)
    sys.path.extend(lib_dirs(root, case))
    try:
        for s in idseeds:
            idhash.install(s)
            try:
                supp.scope.builtin_scope.__dict__.pop('names', None)
                p = new_project(root, case)
                res = [ask(p, root, q) for q in requests]
                if repeat and s in idseeds[:2]:
                    res2 = [ask(p, root, q) for q in requests]
                    p3 = new_project(root, case)
                    res3 = [ask(p3, root, q) for q in reversed(requests)][::-1]
                    out[str(s)] = {'first': res, 'again': res2, 'fresh_reversed': res3}
                    if case.get('kind') == 'project' and case.get('spec_b'):
                        # the same process served another configuration before (only the second root): the answers
                        # for this configuration must not depend on that
                        from supp.server import Server as _Server
                        # (all files get a new modification time first: whatever the process remembers about them
                        # from the projects above is out of date, as after a checkout)
                        for dp, dn, fns in sorted(os.walk(root)):
                            for fn_ in sorted(fns):
                                st = os.stat(os.path.join(dp, fn_))
                                os.utime(os.path.join(dp, fn_), ns=(st.st_mtime_ns + 10 ** 9, st.st_mtime_ns + 10 ** 9))
                        for other in ('a', 'b'):
                            srv = _Server(None)
                            srv.configure({'sources': [os.path.join(root, other)]})
                            for q in requests:
                                ask(srv.project, root, q)
                        p4 = new_project(root, case)
                        out[str(s)]['after_other_config'] = [ask(p4, root, q) for q in requests]
                else:
                    out[str(s)] = {'first': res}
            finally:
                idhash.uninstall()
    finally:
        sys.path[:] = syspath
        shutil.rmtree(root, ignore_errors=True)
    return out


def helper_main():
    """Runs in an interpreter started with another PYTHONHASHSEED: answers requests sent as JSON lines."""
    worker_init()
    for line in sys.stdin:
        msg = json.loads(line)
        res = answers(msg['case'], msg['requests'], msg['idseeds'], repeat=bool(msg.get('repeat')))
        sys.stdout.write(json.dumps(res) + '\n')
        sys.stdout.flush()


def helper(hashseed):
    h = _helpers.get(hashseed)
    if h is None or h.poll() is not None:
        env = dict(os.environ, PYTHONHASHSEED=str(hashseed), PYTHONDONTWRITEBYTECODE='1', VERIF_NO_REEXEC='1')
        code = ('import sys; sys.path.insert(0, %r); from sim import runner; '
                'runner.load_engine("C17").helper_main()' % VERIF)
        h = subprocess.Popen([sys.executable, '-c', code], stdin=subprocess.PIPE, stdout=subprocess.PIPE, env=env,
                             text=True)
        _helpers[hashseed] = h
    return h


def ask_helper(hashseed, case, requests, idseeds, repeat=False):
    h = helper(hashseed)
    h.stdin.write(json.dumps({'case': case, 'requests': requests, 'idseeds': idseeds, 'repeat': repeat}) + '\n')
    h.stdin.flush()
    line = h.stdout.readline()
    if not line:
        raise RuntimeError('helper interpreter (PYTHONHASHSEED=%s) died' % hashseed)
    return json.loads(line)


# ---------------------------------------------------------------- requests of a case

def flow_requests(case):
    text = F.render(case['prog'])
    reqs = []
    for ln, col, name in F.reads(text):
        reqs.append({'kind': 'location', 'source': text, 'position': [ln, col + len(name)], 'file': 'zqflow.py',
                     'bare': True, 'name': name})
    for ln, endcol, name, attr in F.attr_reads(text)[:8]:
        reqs.append({'kind': 'location', 'source': text, 'position': [ln, endcol], 'file': 'zqflow.py',
                     'bare': False, 'name': name + '.' + attr, 'multi': True})
        reqs.append({'kind': 'assist', 'source': text, 'position': [ln, endcol - len(attr)], 'file': 'zqflow.py',
                     'multi': True})
    reqs.append({'kind': 'lint', 'source': text, 'position': None, 'file': 'zqflow.py'})
    return reqs


def has_alternatives(ans):
    if ans[0] != 'ok':
        return False
    v = ans[1]
    return isinstance(v, list) and any(isinstance(x, list) and len(x) >= 2 and isinstance(x[0], dict) for x in v)


def _module_requests(mn, k0):
    return [{'kind': 'assist', 'source': 'import %s\n%s.\n' % (mn, mn), 'position': [2, len(mn) + 1], 'file': 'zqmain.py', 'multi': True},
            {'kind': 'location', 'source': 'from %s import %s\nzr = %s\n' % (mn, k0, k0), 'position': [2, 5 + len(k0)],
             'file': 'zqmain.py', 'multi': True},
            {'kind': 'exports', 'module': mn, 'file': 'zqmain.py', 'source': '', 'position': None, 'multi': True}]


def extra_root_requests(case):
    """(before, after): requests through modules that exist only in a lower-priority place, and through modules
    whose name exists in two places (the first place must win whatever was looked up before)."""
    before, after = [], []
    names_a = {m['name'] for m in case['spec']['modules']}
    for m in (case.get('spec_b') or {}).get('modules', []):
        if m['name'] not in names_a and not m.get('init'):
            before += _module_requests(m['name'], 'K0_' + G.short(m['name']))
    for m in case['spec']['modules']:
        for it in m['items']:
            if it[0] == 'tryimport' and any(x['name'] == it[1] for x in (case.get('spec_b') or {}).get('modules', [])):
                mn = m['name']
                after.append({'kind': 'assist', 'source': 'import %s\n%s.%s.\n' % (mn, mn, it[1]),
                              'position': [2, len(mn) + len(it[1]) + 2], 'file': 'zqmain.py', 'multi': True})
    libs = case.get('libs') or []
    done = set()
    for k, lib in enumerate(libs):
        for m in lib['modules']:
            if m['name'] in done:
                continue
            done.add(m['name'])
            places = sum(1 for l in libs for x in l['modules'] if x['name'] == m['name'])
            (before if places == 1 and k > 0 else after).extend(_module_requests(m['name'], m['iface']['classes'][0]))
    return before, after


def project_requests(case, rng):
    spec = case['spec']
    reqs, tail = extra_root_requests(case)
    for m in spec['modules']:
        for mu in m['iface'].get('multis', []):
            mn = m['name']
            reqs.append({'kind': 'assist', 'source': 'import %s\n%s.%s.\n' % (mn, mn, mu),
                         'position': [2, len(mn) + len(mu) + 2], 'file': 'zqmain.py', 'multi': True})
            reqs.append({'kind': 'location', 'source': 'from %s import %s\nzr = %s\n' % (mn, mu, mu),
                         'position': [2, 5 + len(mu)], 'file': 'zqmain.py', 'multi': True})
            reqs.append({'kind': 'location', 'source': 'import %s\nzr = %s.%s\n' % (mn, mn, mu),
                         'position': [2, 6 + len(mn) + len(mu)], 'file': 'zqmain.py', 'multi': True})
            reqs.append({'kind': 'assist', 'source': 'from %s import *\n%s.\n' % (mn, mu),
                         'position': [2, len(mu) + 1], 'file': 'zqmain.py', 'multi': True})
            reqs.append({'kind': 'location', 'source': 'import %s\nzr = %s.%s.shared\n' % (mn, mn, mu),
                         'position': [2, 13 + len(mn) + len(mu)], 'file': 'zqmain.py', 'multi': True})
            reqs.append({'kind': 'location', 'source': 'from %s import %s\nzr = %s.common\n' % (mn, mu, mu),
                         'position': [2, 12 + len(mu)], 'file': 'zqmain.py', 'multi': True})
        reqs.append({'kind': 'exports', 'module': m['name'], 'file': 'zqmain.py', 'source': '', 'position': None})
    for j in range(6):
        q = G.gen_request(rng, spec, uid='u%d' % j)
        reqs.append({'kind': q['kind'], 'source': q['source'], 'position': q['position'], 'file': q['file']})
    for q in G.cycle_requests(rng, spec)[:6]:
        reqs.append(dict(q, multi=True))
    reqs += tie_requests(spec)
    return reqs + tail


def tie_requests(spec):
    """Alternatives that carry the SAME declaration position: a comment glued to an imported name makes the text
    search for the first binding run on to the second one (`from a import K as zt# noqa` ... `from b import K2 as zt`),
    so the two alternatives tie in the sort by position and only the order in which the branches were joined
    separates them.  Both classes have `shared` and `common`, so the first alternative decides where the answer
    points.  (Drawn without the request PRNG: the other requests of a case keep their values.)"""
    cls = [(m['name'], c) for m in spec['modules'] if not m.get('init') for c in m['iface'].get('classes', [])[:1]]
    out = []
    for (m1, k1), (m2, k2) in list(zip(cls, cls[1:]))[:2] + ([(cls[-1], cls[0])] if len(cls) > 2 else []):
        for head, mid in (('try:', 'except ImportError:'), ('if zqc:', 'else:')):
            for attr in ('shared', 'common'):
                src = '%s\n    from %s import %s as zt# noqa\n%s\n    from %s import %s as zt\nzr = zt.%s\n' % (
                    head, m1, k1, mid, m2, k2, attr)
                out.append({'kind': 'location', 'source': src, 'position': [5, 8 + len(attr)], 'file': 'zqmain.py',
                            'multi': True, 'tie': True})
        src = 'try:\n    from %s import %s as zt# noqa\nexcept ImportError:\n    from %s import %s as zt\nzt.\n' % (m1, k1, m2, k2)
        out.append({'kind': 'assist', 'source': src, 'position': [5, 3], 'file': 'zqmain.py', 'multi': True, 'tie': True})
    return out


def gen_case(seed, i, mode):
    r = prng.rng('c17', seed, mode, i)
    if mode == 'flow':
        return {'kind': 'flow', 'prog': F.gen_program(r, r.choice(('multi', 'multi', 'mixed', 'loops')))}
    spec = G.gen_project(r)
    # make sure some module exports a multiply-bound name
    if not any(m['iface'].get('multis') for m in spec['modules']):
        cands = [k for k, m in enumerate(spec['modules']) if not m.get('init')]
        k = r.choice(cands)
        m = spec['modules'][k]
        m = dict(m, iface=dict(m['iface'], multis=['m0_' + G.short(m['name'])]), version=m['version'] - 1)
        spec['modules'][k] = G.fill_module(r, m, spec['modules'][:k])
    case = {'kind': 'project', 'spec': spec, 'req_seed': r.getrandbits(32)}
    if r.random() < 0.5:
        # a second source root holding later versions of some of the modules (and all packages)
        mods_b = []
        tmp = {'modules': list(spec['modules'])}
        for k, m in enumerate(spec['modules']):
            if m.get('init') or r.random() < 0.6:
                tmp['modules'][k] = G.mutate_module(r, tmp, k)
                mods_b.append(tmp['modules'][k])
        if r.random() < 0.6:
            # and a module that exists only there
            mods_b.append(_plain_module('zqonlyb', 'b'))
        # optional imports of the first root's modules that only the second root satisfies
        for m in spec['modules']:
            for it in m['items']:
                if it[0] == 'tryimport' and r.random() < 0.7 and not any(x['name'] == it[1] for x in mods_b):
                    mods_b.append(_plain_module(it[1], 'b'))
        case['spec_b'] = {'modules': mods_b}
        if r.random() < 0.3:
            case['dup_root'] = True
    if r.random() < 0.35:
        strays = []
        for m in spec['modules']:
            if not m.get('init') and r.random() < 0.6:
                for ext in r.sample(['.pyc', '.so', '.abi3.so', '.cpython-312-x86_64-linux-gnu.so'], r.choice((1, 1, 2))):
                    strays.append(G.relpath(m)[:-3] + ext)
        case['strays'] = strays
    if r.random() < 0.4:
        n = r.choice((2, 2, 3))
        libs = []
        for k in range(n):
            mods = [_plain_module('zqlib', 'lib%d' % k)]
            if r.random() < 0.7:
                mods.append(_plain_module('zqlibonly%d' % k, 'lib%d' % k))
            libs.append({'modules': mods})
        case['libs'] = libs
    return case


def _plain_module(name, tag):
    k0 = 'K0_' + name
    return {'name': name, 'version': 1, 'iface': {'classes': [k0], 'funcs': [], 'insts': [], 'multis': []},
            'items': [['class', k0, [], ['ca_%s_%s' % (name, tag)], [['me_' + k0, ['sa_%s_%s' % (name, tag)]]]],
                      ['assign', 'x_%s_%s' % (name, tag), '1']]}


def file_requests(case):
    """Real file: go-to-definition on (a seeded sample of) the reads that have more than one alternative, and lint."""
    from supp.util import Source, get_name_usages, np
    from supp.nast import extract_scope
    from supp.name import MultiName
    with open(case['path'], encoding='utf-8', errors='replace') as f:
        text = f.read()
    reqs = []
    try:
        src = Source(text, case['path'])
        extract_scope(src, Project(['/nonexistent-root']))
        multi = []
        for node in get_name_usages(src.tree):
            if not hasattr(node, 'flow'):
                continue
            n = node.flow.names_at(np(node)).get(node.id)
            if type(n) is MultiName and len(n.valid_names) >= 2:
                multi.append(node)
    except (SyntaxError, RecursionError, ValueError):
        return reqs
    multi.sort(key=lambda n: (n.lineno, n.col_offset))
    r = prng.rng('c17-file', os.path.basename(case['path']), case.get('pick', 0))
    if len(multi) > 10:
        multi = sorted(r.sample(multi, 10), key=lambda n: (n.lineno, n.col_offset))
    for node in multi:
        reqs.append({'kind': 'location', 'source': text, 'position': [node.lineno, node.col_offset + len(node.id)],
                     'file': case['path'], 'bare': True, 'name': node.id, 'multi': True})
    reqs.append({'kind': 'lint', 'source': text, 'position': None, 'file': case['path']})
    return reqs


def requests_of(case):
    if case['kind'] == 'flow':
        return flow_requests(case)
    if case['kind'] == 'file':
        return file_requests(case)
    if 'requests' in case:
        return case['requests']
    return project_requests(case, prng.rng('c17-req', case.get('req_seed', 0)))


# ---------------------------------------------------------------- the check of one case

def source_order_ok(ans):
    """Every inner list of alternatives is in non-decreasing (line, column) order."""
    for x in ans[1]:
        if isinstance(x, list) and len(x) >= 2 and all(isinstance(d, dict) for d in x):
            locs = [tuple(d['loc']) for d in x]
            if locs != sorted(locs):
                return False, locs
    return True, None


def check_case(case, idseeds, hashseeds, stats=None):
    """Returns list of violations {'sig','detail','request','configs'}."""
    vios = []
    reqs = requests_of(case)
    if case['kind'] == 'flow' and not case.get('all_reads'):
        # first pass under one seed: keep the reads whose answer has alternatives (plus lint)
        if os.environ.get('PYTHONHASHSEED') == '0':
            probe = answers(case, reqs, idseeds[:1], repeat=False)[str(idseeds[0])]['first']
        else:
            probe = ask_helper(0, case, reqs, idseeds[:1])[str(idseeds[0])]['first']
        keep = [q for q, a in zip(reqs, probe) if q['kind'] != 'location' or has_alternatives(a) or q.get('multi')]
        if stats is not None:
            stats['evals'] += len(reqs)
        reqs = keep[:14]
    if not reqs:
        return vios
    if os.environ.get('PYTHONHASHSEED') == '0':
        local = answers(case, reqs, idseeds, repeat=True)
    else:
        # (replay confirmation runs under another hash seed on purpose) the reference side of every comparison
        # is an interpreter with PYTHONHASHSEED=0, as in the run that found the violation
        local = ask_helper(0, case, reqs, idseeds, repeat=True)
    if stats is not None:
        stats['evals'] += len(reqs) * (len(idseeds) + (4 if case.get('spec_b') else 2) * min(2, len(idseeds)))
    base = local[str(idseeds[0])]['first']
    seen = {}
    for qi, q in enumerate(reqs):
        ref = base[qi]
        variants = {json.dumps(ref, sort_keys=True)}
        nt = has_alternatives(ref) or q.get('multi')
        if stats is not None and nt:
            stats['keys'].add(prng.derive(prng.digest(case.get('prog') or case.get('spec') or case.get('path')), q['kind'], q.get('position'),
                                          q.get('source') if case['kind'] == 'project' else None) & 0xffffffffffff)
        for s in idseeds:
            for mode in ('first', 'again', 'fresh_reversed', 'after_other_config'):
                if mode not in local[str(s)]:
                    continue
                a = local[str(s)][mode][qi]
                variants.add(json.dumps(a, sort_keys=True))
                if a != ref and ('nd', qi) not in seen:
                    seen[('nd', qi)] = True
                    what = {'first': 'idseed', 'again': 'repeat', 'fresh_reversed': 'fresh-project',
                            'after_other_config': 'other-configuration-first'}[mode]
                    vios.append({'sig': 'C17/nondeterministic/%s/%s' % (q['kind'], what),
                                 'detail': 'request %r at %r: answer under identity-hash seed %s is %s, under seed %s (%s) it is %s' % (
                                     q['kind'], q.get('position'), idseeds[0], _brief(ref), s, mode, _brief(a)),
                                 'request': q, 'configs': [[0, idseeds[0], 'first'], [0, s, mode]]})
        if stats is not None and ref[0] == 'ok' and isinstance(ref[1], list) and any(
                isinstance(x, list) and len(x) >= 3 for x in ref[1]):
            stats['probes']['answers_with_ge_3_alternatives'] += 1
        if stats is not None and nt:
            stats['probes']['answers_with_alternatives'] += 1
        if q['kind'] == 'location' and q.get('bare') and ref[0] == 'ok':
            ok, locs = source_order_ok(ref)
            if not ok:
                vios.append({'sig': 'C17/source-order/location',
                             'detail': 'alternatives of %r at %r are listed as %r, not in source order' % (
                                 q.get('name'), q.get('position'), locs),
                             'request': q, 'configs': [[0, idseeds[0], 'first']]})
    for hs in hashseeds:
        if hs == 0:
            continue
        hids = idseeds[:3]
        other = ask_helper(hs, case, reqs, hids)
        if stats is not None:
            stats['evals'] += len(reqs) * len(hids)
            stats['faults']['hashseed_interpreter_runs'] = stats['faults'].get('hashseed_interpreter_runs', 0) + 1
        for s in hids:
            for qi, q in enumerate(reqs):
                a = other[str(s)]['first'][qi]
                b = local[str(s)]['first'][qi]
                if a != b and ('hs', qi) not in seen:
                    seen[('hs', qi)] = True
                    vios.append({'sig': 'C17/nondeterministic/%s/hashseed' % q['kind'],
                                 'detail': 'request %r at %r, identity-hash seed %s: PYTHONHASHSEED=0 gives %s, PYTHONHASHSEED=%s gives %s' % (
                                     q['kind'], q.get('position'), s, _brief(b), hs, _brief(a)),
                                 'request': q, 'configs': [[0, s, 'first'], [hs, s, 'first']]})
    return vios


def _brief(x):
    r = json.dumps(x)
    return r if len(r) < 400 else r[:400] + '...'


# ---------------------------------------------------------------- units

HASHSEEDS = {'quick': [1, 17, 4242], 'thorough': [1, 2, 3, 5, 8, 13, 17, 21, 99, 1234, 4242, 65535, 99999, 31337, 271828]}


def plan(tier, seed, scale=1.0):
    nflow = int((640 if tier == 'quick' else 7000) * scale)
    nproj = int((240 if tier == 'quick' else 2500) * scale)
    per = 10 if tier == 'quick' else 50
    units = []
    for i in range(0, nflow, per):
        units.append({'kind': 'runs', 'mode': 'flow', 'seed': seed, 'first': i, 'count': min(per, nflow - i), 'tier': tier})
    for i in range(0, nproj, per):
        units.append({'kind': 'runs', 'mode': 'project', 'seed': seed, 'first': i, 'count': min(per, nproj - i), 'tier': tier})
    files = [{'kind': 'file', 'path': f, 'tier': tier, 'seed': seed} for f in real_files(tier)]
    # the real files first: they are the longest single units
    return files + units


def selftest_units(tier, seed):
    return ([{'kind': 'runs', 'mode': 'flow', 'seed': seed, 'first': i, 'count': 1, 'tier': 'quick'} for i in range(20)] +
            [{'kind': 'runs', 'mode': 'project', 'seed': seed, 'first': i, 'count': 1, 'tier': 'quick'} for i in range(8)])


def configs_for(tier, seed, i):
    r = prng.rng('c17-conf', seed, i)
    k = 6 if tier == 'quick' else 16
    idseeds = [0, 1] + [r.getrandbits(31) for _ in range(k - 2)]
    hs = HASHSEEDS[tier]
    hashseeds = [0, hs[i % len(hs)]]
    if tier == 'thorough':
        hashseeds.append(hs[(i // len(hs) + 7) % len(hs)])
    return idseeds, hashseeds


def run_unit(unit):
    stats = {'evals': 0, 'keys': set(), 'faults': {},
             'probes': {'answers_with_ge_3_alternatives': 0, 'answers_with_alternatives': 0}}
    vios = []
    samples = []
    log = prng.Log()
    if unit['kind'] == 'case':
        case = unit['case']
        vs = check_case(_strip(case), case.get('idseeds') or [0, 1, 2, 3, 4, 5, 6, 7], case.get('hashseeds') or [0, 1], stats)
        return {'evals': stats['evals'], 'keys': [], 'faults': stats['faults'], 'probes': stats['probes'],
                'violations': [{'sig': v['sig'], 'case': case, 'detail': v['detail']} for v in vs[:2]],
                'digest': prng.digest([v['sig'] for v in vs])}
    if unit['kind'] == 'file':
        case = {'kind': 'file', 'path': unit['path'], 'all_reads': True}
        idseeds, hashseeds = configs_for(unit['tier'], unit['seed'], len(unit['path']))
        idseeds = idseeds[:4]
        vs = check_case(case, idseeds, hashseeds, stats)
        stats['probes']['real_files'] = 1
        log.add(os.path.basename(unit['path']), idseeds, hashseeds)
        for v in vs[:2]:
            c = dict(case, idseeds=[v['configs'][0][1], v['configs'][-1][1]], hashseeds=[0, v['configs'][-1][0]], _ns=NS)
            vios.append({'sig': v['sig'], 'case': c, 'detail': v['detail']})
        return {'evals': stats['evals'], 'keys': sorted(stats['keys']), 'faults': stats['faults'], 'probes': stats['probes'],
                'violations': vios, 'samples': [], 'digest': log.digest()}
    for i in range(unit['first'], unit['first'] + unit['count']):
        case = gen_case(unit['seed'], i, unit['mode'])
        idseeds, hashseeds = configs_for(unit['tier'], unit['seed'], i)
        vs = check_case(case, idseeds, hashseeds, stats)
        # the digest covers what was asked under which configurations, not the answers: whether answers depend on
        # the interpreter's hash seed is the property under test, not a property of the harness
        log.add(i, prng.digest(case), idseeds, hashseeds, len(requests_of(case)))
        if vs and len(vios) < 4:
            for v in vs[:2]:
                c = dict(case, idseeds=[v['configs'][0][1], v['configs'][-1][1]], _ns=NS,
                         hashseeds=[0, v['configs'][-1][0]], focus=v['request'],
                         origin={'seed': unit['seed'], 'mode': unit['mode'], 'run': i})
                vios.append({'sig': v['sig'], 'case': c, 'detail': v['detail']})
        if i == unit['first'] and unit['first'] == 0:
            reqs = requests_of(case)
            samples.append({'run': i, 'mode': unit['mode'],
                            'program': F.render(case['prog'])[:1200] if case['kind'] == 'flow' else
                            [m['name'] for m in case['spec']['modules']],
                            'requests': [{k: (v if not isinstance(v, str) or len(v) < 120 else v[:120] + '...')
                                          for k, v in q.items()} for q in reqs[:4]],
                            'identity_hash_seeds': idseeds[:6], 'pythonhashseeds': hashseeds})
    return {'evals': stats['evals'], 'keys': sorted(stats['keys']), 'faults': stats['faults'], 'probes': stats['probes'],
            'violations': vios, 'samples': samples, 'digest': log.digest()}


def _strip(case):
    c = dict(case)
    for k in ('idseeds', 'hashseeds', 'focus', 'origin'):
        c.pop(k, None)
    return c


# ---------------------------------------------------------------- replay / shrink

def replay_case(case):
    idseeds = case.get('idseeds') or [0, 1, 2, 3, 4, 5, 6, 7]
    hashseeds = case.get('hashseeds') or [0, 1]
    if SCRATCH is None:
        worker_init()
    return [{'sig': v['sig'], 'detail': v['detail']} for v in check_case(_strip(case), idseeds, hashseeds)]


def _paths(body, prefix=()):
    """Paths of all statements in a program tree (for deletion)."""
    out = []
    for i, s in enumerate(body):
        p = prefix + (i,)
        out.append(p)
        k = s[0]
        subs = []
        if k == 'seq':
            subs = [1]
        elif k == 'if':
            subs = [2, 4]
            for j in range(len(s[3])):
                out.extend(_paths(s[3][j][1], p + (3, j, 1)))
        elif k == 'for':
            subs = [3, 4]
        elif k == 'while':
            subs = [2, 3]
        elif k == 'try':
            subs = [1, 3, 4]
            for j in range(len(s[2])):
                out.extend(_paths(s[2][j][2], p + (2, j, 2)))
        elif k in ('with', 'def', 'class', 'walrus'):
            subs = [3]
        for f in subs:
            if s[f] is not None:
                out.extend(_paths(s[f], p + (f,)))
    return out


def _delete(prog, path):
    prog = copy.deepcopy(prog)
    holder = prog['body']
    for k in path[:-1]:
        holder = holder[k]
    del holder[path[-1]]
    return prog


def shrink(case, sig):
    if SCRATCH is None:
        worker_init()
    idseeds = case.get('idseeds') or [0, 1, 2, 3]
    hashseeds = case.get('hashseeds') or [0, 1]
    if 'hashseed' not in sig:
        hashseeds = [0]
    # a couple of extra seeds make the smaller program more likely to still show two orders
    ids = list(dict.fromkeys(list(idseeds) + [0, 1, 2, 3, 5, 8, 13, 21]))

    def bad(c):
        try:
            return any(v['sig'] == sig for v in check_case(_strip(c), ids, hashseeds))
        except Exception:
            return False
    base = dict(_strip(case))
    if not bad(base):
        return case
    budget = 300
    if base['kind'] == 'flow':
        progress = True
        while progress and budget > 0:
            progress = False
            for p in sorted(_paths(base['prog']['body']), key=lambda p: (len(p), p)):
                budget -= 1
                if budget <= 0:
                    break
                cand = dict(base, prog=_delete(base['prog'], p))
                if not F.compiles(F.render(cand['prog'])):
                    continue
                if bad(cand):
                    base = cand
                    progress = True
                    break
    else:
        if 'requests' not in base:
            base['requests'] = requests_of(base)
        if case.get('focus'):
            c = dict(base, requests=[{k: v for k, v in case['focus'].items()}])
            if bad(c):
                base = c
        for mi in range(len(base['spec']['modules']) - 1, -1, -1):
            budget -= 1
            c = copy.deepcopy(base)
            del c['spec']['modules'][mi]
            if bad(c):
                base = c
        for mi in range(len(base['spec']['modules'])):
            items = base['spec']['modules'][mi]['items']
            j = len(items) - 1
            while j >= 0 and budget > 0:
                budget -= 1
                c = copy.deepcopy(base)
                del c['spec']['modules'][mi]['items'][j]
                if bad(c):
                    base = c
                j -= 1
    return dict(base, idseeds=ids, hashseeds=hashseeds)
