"""Check orchestrator: plans units of simulated runs, executes them on a process pool, minimises and
confirms violations, matches them against the committed known-findings file, writes evidence.

Exit codes: 0 nothing found (known findings printed), 1 VIOLATION (confirmed by replay in a fresh
interpreter), 2 harness error (never a pass, never a VIOLATION line)."""
from __future__ import print_function

import argparse
import faulthandler
import importlib
import json
import multiprocessing
import os
import re
import subprocess
import sys
import time
import traceback
from concurrent.futures import ProcessPoolExecutor, as_completed
from concurrent.futures.process import BrokenProcessPool

VERIF = os.path.dirname(os.path.dirname(os.path.abspath(__file__)))
REPO = os.path.abspath(os.environ.get('SUPP_REPO', '/repo'))
OUT = os.environ.get('VERIF_OUT', os.path.join(VERIF, 'out'))
PY = sys.executable

ENGINES = {
    'C04': 'engines.c04', 'C09': 'engines.c09', 'C14': 'engines.c14',
    'C15': 'engines.c15', 'C16': 'engines.c16', 'C17': 'engines.c17',
}


class HarnessError(Exception):
    pass


def setup_repo_path():
    """Import supp from the working tree under test, never from anywhere else."""
    if REPO not in sys.path[:1]:
        sys.path.insert(0, REPO)
    sys.dont_write_bytecode = True
    import supp
    got = os.path.abspath(supp.__file__)
    if not got.startswith(REPO + os.sep):
        raise HarnessError('supp imported from %s, expected under %s' % (got, REPO))


def load_engine(pid):
    if VERIF not in sys.path:
        sys.path.insert(1, VERIF)
    setup_repo_path()
    return importlib.import_module(ENGINES[pid])


# ---------------------------------------------------------------- worker side

_engine = None
_unit_timeout = 120


def idle_cpus(sample_s=0.25):
    """The CPUs of this process's affinity mask that are not already busy with something else (a worker is pinned to
    one core, so a core that another process saturates would starve it)."""
    def snap():
        out = {}
        try:
            with open('/proc/stat') as f:
                for line in f:
                    if line.startswith('cpu') and line[3].isdigit():
                        parts = line.split()
                        vals = [int(x) for x in parts[1:9]]
                        out[int(parts[0][3:])] = (sum(vals), vals[3] + vals[4])
        except (OSError, ValueError, IndexError):
            pass
        return out
    try:
        allowed = sorted(os.sched_getaffinity(0))
    except (AttributeError, OSError):
        return []
    a = snap()
    time.sleep(sample_s)
    b = snap()
    free = []
    for c in allowed:
        if c in a and c in b and b[c][0] > a[c][0]:
            busy = 1.0 - (b[c][1] - a[c][1]) / float(b[c][0] - a[c][0])
            if busy < 0.5:
                free.append(c)
        else:
            free.append(c)
    # most of the machine is busy with something else: do not pin at all, the scheduler balances better than we can
    return free if len(free) >= max(2, len(allowed) // 4) else []


def _worker_init(pid, unit_timeout, cpus=None):
    global _engine, _unit_timeout
    _unit_timeout = unit_timeout
    # one core per worker: baton passing between the real threads of a simulated run is ~6x cheaper
    # when both ends of the hand-off share a core
    try:
        ident = multiprocessing.current_process()._identity
        if ident and cpus:
            os.sched_setaffinity(0, {cpus[(ident[0] - 1) % len(cpus)]})
    except (AttributeError, OSError):
        pass
    _engine = load_engine(pid)
    init = getattr(_engine, 'worker_init', None)
    if init:
        init()


def _unit_brief(u):
    return ' '.join('%s=%s' % (k, os.path.basename(str(v)) if k == 'path' else v) for k, v in sorted(u.items())
                    if k in ('kind', 'mode', 'first', 'count', 'path', 'family', 'n', 'w', 'gran', 'bound', 'shard', 'indices'))[:160]


def _run_unit(unit):
    faulthandler.dump_traceback_later(_unit_timeout, exit=True)
    try:
        t = time.time()
        res = _engine.run_unit(unit)
        res['wall'] = time.time() - t
        return res
    finally:
        faulthandler.cancel_dump_traceback_later()


def _shrink(job):
    case, sig = job
    faulthandler.dump_traceback_later(_unit_timeout * 5, exit=True)
    try:
        f = getattr(_engine, 'shrink', None)
        if f is None:
            return case
        return f(case, sig)
    finally:
        faulthandler.cancel_dump_traceback_later()


# ---------------------------------------------------------------- known findings

def load_known(pid):
    path = os.path.join(VERIF, 'known_findings.json')
    try:
        with open(path) as f:
            data = json.load(f)
    except IOError:
        return []
    return [e for e in data.get('findings', [])
            if e.get('property') == pid and e.get('status') == 'open']


def match_known(known, sig):
    for e in known:
        if re.fullmatch(e['signature'], sig):
            return e
    return None


# ---------------------------------------------------------------- replay

def write_replay(pid, seed, sig, case, detail, name=None, origin=None):
    d = os.path.join(OUT, 'replays', pid)
    os.makedirs(d, exist_ok=True)
    from sim import prng
    name = name or ('%s-%s.json' % (pid, prng.digest([sig, case])))
    path = os.path.join(d, name)
    with open(path, 'w') as f:
        json.dump({'property': pid, 'engine': ENGINES[pid], 'seed': seed, 'signature': sig,
                   'found_by': origin, 'detail': detail[:4000], 'case': case}, f, indent=1, sort_keys=True)
    return path


def do_replay(pid, path):
    """Replay mode (fresh interpreter): re-execute the explicit case; exit 1 with a VIOLATION line
    iff the recorded signature is reproduced."""
    eng = load_engine(pid)
    init = getattr(eng, 'worker_init', None)
    if init:
        init()
    with open(path) as f:
        rep = json.load(f)
    try:
        vios = eng.replay_case(rep['case'], expect=rep['signature'])
    except TypeError:
        vios = eng.replay_case(rep['case'])
    sigs = [v['sig'] for v in vios]
    print('replay %s: recorded signature %r, reproduced signatures %r' % (path, rep['signature'], sigs))
    for v in vios:
        print('  detail:', v.get('detail', '')[:2000])
    if rep['signature'] in sigs:
        print('VIOLATION property=%s replay=%s' % (pid, path))
        return 1
    if vios:
        print('replay produced a different violation than recorded')
        print('VIOLATION property=%s replay=%s' % (pid, path))
        return 1
    print('replay: no violation reproduced')
    return 0


def confirm_replay(pid, path, sig):
    env = dict(os.environ)
    env['PYTHONHASHSEED'] = '1'   # a different interpreter configuration on purpose
    env['VERIF_NO_REEXEC'] = '1'
    p = subprocess.run([PY, os.path.join(VERIF, 'check'), pid, '--replay', path],
                       stdout=subprocess.PIPE, stderr=subprocess.STDOUT, env=env, timeout=900)
    out = p.stdout.decode('utf-8', 'replace')
    ok = p.returncode == 1 and ('recorded signature %r' % sig) in out and \
        re.search(r'reproduced signatures \[.*%s' % re.escape(repr(sig)), out) is not None
    return ok, out


# ---------------------------------------------------------------- selftest

def selftest_digests(pid, tier, seed, reverse=False):
    eng = load_engine(pid)
    init = getattr(eng, 'worker_init', None)
    if init:
        init()
    units = list(enumerate(eng.selftest_units(tier, seed)))
    if reverse:
        # a different execution order inside this interpreter: digests must not depend on what ran before
        units.reverse()
    out = {}
    for i, u in units:
        out[i] = eng.run_unit(u)['digest']
    return [out[i] for i in sorted(out)]


def start_selftest(pid, tier, seed):
    """Same seeds in two fresh interpreters with different PYTHONHASHSEED values (started before the pool,
    collected after it); event-log digests must agree."""
    procs = []
    for hs in ('0', '4242'):
        env = dict(os.environ)
        env['PYTHONHASHSEED'] = hs
        env['VERIF_NO_REEXEC'] = '1'
        env['VERIF_NS_SUFFIX'] = 's' + hs      # scratch names that cannot collide with those of the pool workers
        env.pop('VERIF_C17_NS', None)
        procs.append(subprocess.Popen([PY, os.path.join(VERIF, 'check'), pid, '--selftest-digests',
                                       '--tier', tier, '--seed', str(seed)] + (['--reverse'] if hs != '0' else []),
                                      stdout=subprocess.PIPE, stderr=subprocess.PIPE, env=env))
    return procs


def finish_selftest(procs, log):
    res = []
    for p in procs:
        try:
            out, err = p.communicate(timeout=900)
        except subprocess.TimeoutExpired:
            p.kill()
            raise HarnessError('selftest subprocess timed out')
        if p.returncode != 0:
            raise HarnessError('selftest subprocess failed: ' + err.decode('utf-8', 'replace')[-3000:])
        line = [l for l in out.decode().splitlines() if l.startswith('DIGESTS ')][-1]
        res.append(json.loads(line[len('DIGESTS '):]))
    if res[0] != res[1]:
        diff = [i for i, (a, b) in enumerate(zip(res[0], res[1])) if a != b]
        raise HarnessError('determinism self-test failed: digests differ for selftest units %r' % diff)
    log('selftest: %d units, digests equal under PYTHONHASHSEED=0 and 4242 (second interpreter ran them in reverse order)' % len(res[0]))
    return {'units': len(res[0]), 'hashseeds': [0, 4242], 'second_interpreter_order': 'reversed', 'equal': True}


# ---------------------------------------------------------------- main

def main(argv=None):
    ap = argparse.ArgumentParser()
    ap.add_argument('pid')
    ap.add_argument('--tier', default=os.environ.get('VERIF_TIER', 'quick'))
    ap.add_argument('--seed', type=int, default=int(os.environ.get('VERIF_SEED', '0') or 0))
    ap.add_argument('--jobs', type=int, default=int(os.environ.get('VERIF_JOBS', '0') or 0))
    ap.add_argument('--replay')
    ap.add_argument('--selftest-digests', action='store_true')
    ap.add_argument('--no-selftest', action='store_true')
    ap.add_argument('--reverse', action='store_true')
    ap.add_argument('--budget', type=float, default=0, help='wall seconds after which no new unit is started')
    ap.add_argument('--scale', type=float, default=float(os.environ.get('VERIF_SCALE', '1') or 1),
                    help='multiplier on the number of runs')
    ap.add_argument('--no-evidence', action='store_true')
    args = ap.parse_args(argv)
    pid = args.pid
    if pid not in ENGINES:
        print('unknown property id', pid)
        return 2
    if args.tier not in ('quick', 'thorough'):
        print('unknown tier', args.tier)
        return 2

    # every scratch file of this invocation (and of its workers and helper interpreters) lives under one directory
    # that is removed when the invocation ends
    import tempfile
    import shutil
    own = 'VERIF_SCRATCH' not in os.environ
    if own:
        os.environ['VERIF_SCRATCH'] = tempfile.mkdtemp(prefix='vsim-', dir='/tmp')
    try:
        return _main(args, pid)
    finally:
        if own:
            shutil.rmtree(os.environ.pop('VERIF_SCRATCH'), ignore_errors=True)


def _main(args, pid):
    if args.replay:
        return do_replay(pid, args.replay)
    if args.selftest_digests:
        print('DIGESTS ' + json.dumps(selftest_digests(pid, args.tier, args.seed, args.reverse)))
        return 0

    t0 = time.time()

    def log(*a):
        print('[%s %s %6.1fs]' % (pid, args.tier, time.time() - t0), *a)
        sys.stdout.flush()

    eng = load_engine(pid)
    log('seed=%d repo=%s python=%s hashseed=%s' % (args.seed, REPO, sys.version.split()[0],
                                                    os.environ.get('PYTHONHASHSEED')))
    cpus = idle_cpus()
    jobs = args.jobs or min(16, len(cpus) or os.cpu_count() or 1)
    budget = args.budget or eng.BUDGET_S[args.tier]
    unit_timeout = getattr(eng, 'UNIT_TIMEOUT_S', 300)

    selftest = None
    st_procs = None
    if not args.no_selftest:
        st_procs = start_selftest(pid, args.tier, args.seed)

    units = eng.plan(args.tier, args.seed, args.scale)
    # corpus: cases found earlier are replayed first in every run
    corpus = []
    cdir = os.path.join(VERIF, 'corpus', pid)
    if os.path.isdir(cdir):
        for fn in sorted(os.listdir(cdir)):
            if fn.endswith('.json'):
                with open(os.path.join(cdir, fn)) as f:
                    corpus.append({'kind': 'case', 'name': fn, 'case': json.load(f)['case']})
    units = corpus + units
    log('planned %d units (%d corpus cases) on %d workers, budget %.0fs' % (len(units), len(corpus), jobs, budget))

    agg = {'evals': 0, 'keys': set(), 'faults': {}, 'probes': {}, 'violations': [], 'samples': [],
           'sim_s': 0.0, 'steps': 0, 'units_done': 0, 'units_skipped': 0, 'extra': {}}
    ctx = multiprocessing.get_context('fork')
    stopped_early = False
    try:
        with ProcessPoolExecutor(max_workers=jobs, mp_context=ctx, initializer=_worker_init,
                                 initargs=(pid, unit_timeout, cpus)) as pool:
            pending = {}
            slowest = []
            it = iter(units)
            exhausted = False

            def submit_more():
                nonlocal exhausted
                while not exhausted and len(pending) < jobs * 2:
                    if time.time() - t0 > budget or len(agg['violations']) >= 40:
                        return
                    try:
                        u = next(it)
                    except StopIteration:
                        exhausted = True
                        return
                    pending[pool.submit(_run_unit, u)] = u
            submit_more()
            last = time.time()
            while pending:
                done = next(as_completed(list(pending)))
                unit_done = pending.pop(done)
                try:
                    res = done.result()
                except BrokenProcessPool:
                    print('units in flight or queued when the worker died (unit timeout %ds):' % unit_timeout)
                    for u in [unit_done] + list(pending.values()):
                        print('   ' + _unit_brief(u))
                    raise
                except Exception:
                    print('HARNESS-ERROR: exception inside the harness (not a verdict about supp):')
                    traceback.print_exc()
                    for f in pending:
                        f.cancel()
                    if st_procs:
                        for p in st_procs:
                            p.kill()
                    return 2
                merge(agg, res)
                slowest.append((round(res.get('wall', 0.0), 1), _unit_brief(unit_done)))
                slowest.sort(reverse=True)
                del slowest[5:]
                submit_more()
                if time.time() - last > 30:
                    last = time.time()
                    log('progress: %d/%d units, %d runs, %d violations' % (
                        agg['units_done'], len(units), agg['evals'], len(agg['violations'])))
            log('slowest units (unit timeout %ds): %s' % (unit_timeout, '; '.join('%.1fs %s' % x for x in slowest[:3])))
            agg['slowest_units'] = slowest[:5]
            remaining = sum(1 for _ in it)
            if remaining:
                stopped_early = True
                agg['units_skipped'] = remaining
                log('stopped before the plan was exhausted: %d units not run (budget or violation cap)' % remaining)

            # ---- violations: minimise, write replay, confirm
            reports = []
            if agg['violations']:
                bysig = {}
                for v in agg['violations']:
                    bysig.setdefault(v['sig'], []).append(v)
                log('%d violating runs, %d distinct signatures before minimisation' % (
                    len(agg['violations']), len(bysig)))
                chosen = [vs[0] for sig, vs in sorted(bysig.items())][:6]
                futs = [(v, pool.submit(_shrink, (v['case'], v['sig']))) for v in chosen]
                for v, fu in futs:
                    try:
                        small = fu.result(timeout=unit_timeout * 6)
                    except Exception:
                        log('minimisation failed, reporting unminimised: ' + traceback.format_exc()[-500:])
                        small = v['case']
                    if isinstance(small, tuple):
                        if len(small) == 3:
                            small, newsig, newdetail = small
                        else:
                            small, newsig = small
                            newdetail = '(detail of the run before minimisation) ' + v.get('detail', '')
                        v = dict(v, sig=newsig, detail=newdetail)
                    reports.append((v, small))
    except BrokenProcessPool:
        print('HARNESS-ERROR: a worker died (wall-clock kill or crash); see traceback above')
        if st_procs:
            for p in st_procs:
                p.kill()
        return 2
    selftest_error = None
    if st_procs:
        try:
            selftest = finish_selftest(st_procs, log)
        except HarnessError as e:
            # A confirmed violation (replayed in a fresh interpreter below) stands on its own; without one, a
            # run whose digests depend on the interpreter configuration proves nothing and is a harness error.
            selftest_error = str(e)
            selftest = {'equal': False, 'error': selftest_error}
            if not reports:
                raise
            log('warning: ' + selftest_error + ' (violations were found and are confirmed by replay below)')

    rc = 0
    known = load_known(pid)
    seen_known = {}
    new_vios = []
    seen_sigs = set()
    for v, small in reports:
        if v['sig'] in seen_sigs:
            continue
        seen_sigs.add(v['sig'])
        origin = v['case'].get('origin') if isinstance(v.get('case'), dict) else None
        path = write_replay(pid, args.seed, v['sig'], small, v.get('detail', ''), origin=origin)
        ok, out = confirm_replay(pid, path, v['sig'])
        if not ok:
            # fall back to the unminimised case before giving up
            path = write_replay(pid, args.seed, v['sig'], v['case'], v.get('detail', ''), origin=origin)
            ok, out = confirm_replay(pid, path, v['sig'])
        if not ok:
            print(out[-3000:])
            print('HARNESS-ERROR: violation %s did not reproduce in a fresh interpreter (%s)' % (v['sig'], path))
            return 2
        k = match_known(known, v['sig'])
        if k is not None:
            seen_known[k['id']] = (k, path)
        else:
            new_vios.append((v, path))
    for kid, (k, path) in sorted(seen_known.items()):
        print('KNOWN-FINDING: property=%s %s (%s) replay=%s' % (pid, k['id'], k['what'], path))
    for v, path in new_vios:
        print('violation signature: %s' % v['sig'])
        print('detail: %s' % v.get('detail', '')[:3000])
        print('VIOLATION property=%s replay=%s' % (pid, path))
        rc = 1

    wall = time.time() - t0
    if not args.no_evidence:
        write_evidence(eng, pid, args, agg, wall, selftest, stopped_early, len(units), len(new_vios),
                       sorted(seen_known), jobs)
    probes0 = [k for k, n in sorted(agg['probes'].items()) if n == 0]
    if probes0:
        log('warning: reach probes at zero: %s' % ', '.join(probes0))
    log('done: %d runs in %d units, %d distinct non-trivial, faults=%s, %d new violation signatures, wall %.1fs' % (
        agg['evals'], agg['units_done'], len(agg['keys']), json.dumps(agg['faults'], sort_keys=True),
        len(new_vios), wall))
    if agg['evals'] == 0:
        print('HARNESS-ERROR: nothing was run')
        return 2
    return rc


def merge(agg, res):
    agg['units_done'] += 1
    agg['evals'] += res.get('evals', 0)
    agg['keys'].update(res.get('keys', ()))
    for k, n in res.get('faults', {}).items():
        agg['faults'][k] = agg['faults'].get(k, 0) + n
    for k, n in res.get('probes', {}).items():
        agg['probes'][k] = agg['probes'].get(k, 0) + n
    for k, n in res.get('extra', {}).items():
        if k.startswith('max_'):
            agg['extra'][k] = max(agg['extra'].get(k, 0), n)
        elif isinstance(n, (int, float)):
            agg['extra'][k] = agg['extra'].get(k, 0) + n
        else:
            agg['extra'][k] = n
    agg['violations'].extend(res.get('violations', ()))
    for smp in res.get('samples', ()):
        # a few written-out cases, at most two of each kind of workload
        kind = str(smp.get('kind') or smp.get('mode')) if isinstance(smp, dict) else '?'
        n = sum(1 for k, _ in agg.setdefault('_sample_kinds', []) if k == kind)
        if n < 2 and len(agg['samples']) < 8:
            agg['_sample_kinds'].append((kind, 1))
            agg['samples'].append(smp)
    agg['sim_s'] += res.get('sim_s', 0.0)
    agg['steps'] += res.get('steps', 0)


def write_evidence(eng, pid, args, agg, wall, selftest, stopped_early, nunits, nvio, known_seen, jobs):
    cov = {
        'evaluations': agg['evals'],
        'distinct_nontrivial': len(agg['keys']),
        'rule': eng.RULE,
        'samples': agg['samples'],
        'runs_per_hour': int(agg['evals'] / max(wall, 1e-6) * 3600),
        'seeds': {'verif_seed': args.seed, 'units_planned': nunits, 'units_run': agg['units_done'],
                  'derivation': 'run PRNG = blake2b(VERIF_SEED, engine, stream, run index)'},
        'fault_counts_as_fired': agg['faults'],
        'probes': agg['probes'],
        'simulated_seconds': round(agg['sim_s'], 3),
        'scheduler_steps': agg['steps'],
        'real_components': eng.REAL,
        'stub_components': eng.STUB,
        'known_findings_seen': known_seen,
        'selftest': selftest,
        'stopped_early': stopped_early,
        'workers': jobs,
        'exhaustive': False,
    }
    cov.update(agg['extra'])
    fin = getattr(eng, 'finish_coverage', None)
    if fin:
        fin(cov, args.tier)
    ev = {
        'property_id': pid, 'tier': args.tier, 'seed': args.seed, 'level': eng.LEVEL,
        'coverage': cov, 'assumptions': eng.ASSUMPTIONS, 'wall_s': round(wall, 2),
        'violations': nvio,
    }
    d = os.path.join(VERIF, 'evidence')
    os.makedirs(d, exist_ok=True)
    tmp = os.path.join(d, pid + '.json.tmp')
    with open(tmp, 'w') as f:
        json.dump(ev, f, indent=1, sort_keys=True, default=str)
    os.replace(tmp, os.path.join(d, pid + '.json'))
