"""Seam for the iteration order of sets of analysis objects.

supp puts Name / FuncScope / ClassScope objects (all supp.util.Location subclasses) and MultiName objects into
sets; they hash by identity, i.e. by heap address, so set iteration order depends on everything allocated
before.  The simulator replaces the hash by a keyed function of (seed, description of the object): one seed is
one choice of iteration order for every such set, reproducible in any process.  A draw-order based hash is NOT
reproducible (builtin_scope.names is a process-global memo, so the number of objects hashed before varies)."""
import hashlib

import supp.util
import supp.name

_state = {'seed': None, 'installed': False}
_orig = {}


def _h(*parts):
    d = hashlib.blake2b(repr(parts).encode('utf-8', 'backslashreplace'), digest_size=8).digest()
    return int.from_bytes(d, 'big') >> 2     # keep it a small positive Py_hash_t


def _loc_hash(self):
    d = self.__dict__
    seed = _state['seed']
    c = d.get('_vhash')
    if c is not None and c[0] == seed:
        return c[1]
    # (cached per seed: objects of process-global memos such as builtin_scope.names outlive a run)
    v = _h(seed, type(self).__name__, d.get('name'), d.get('location'), d.get('declared_at'),
           d.get('module'), d.get('mname'))
    d['_vhash'] = (seed, v)
    return v


def _multi_hash(self):
    d = self.__dict__
    seed = _state['seed']
    c = d.get('_vhash')
    if c is not None and c[0] == seed:
        return c[1]
    v = _h(seed, 'MultiName', tuple(sorted(hash(n) if not isinstance(n, str) else _h('u', str(n))
                                           for n in self.alt_names)))
    d['_vhash'] = (seed, v)
    return v


def _obj_hash(self):
    """supp.name.Object subclasses that are not Locations: ClassObject, InstanceValue, FuncObject, modules, ..."""
    d = self.__dict__
    seed = _state['seed']
    c = d.get('_vhash')
    if c is not None and c[0] == seed:
        return c[1]
    t = type(self).__name__
    sc = d.get('scope')
    if t == 'InstanceValue':
        sc = getattr(d.get('cls'), 'scope', None)
    if sc is not None and hasattr(sc, 'declared_at'):
        desc = (getattr(sc, 'name', None), sc.declared_at, getattr(getattr(sc, 'top', None), 'filename', None))
    elif t == 'SourceModule':
        desc = (d.get('name'),)
    elif t == 'ImportedModule':
        desc = (getattr(d.get('module'), '__name__', None),)
    else:
        desc = ()
    v = _h(seed, t, desc)
    d['_vhash'] = (seed, v)
    return v


def install(seed):
    """From now on Location/MultiName/Object instances hash by (seed, description)."""
    if not _state['installed']:
        _orig['loc'] = supp.util.Location.__dict__.get('__hash__')
        _orig['multi'] = supp.name.MultiName.__dict__.get('__hash__')
        _orig['obj'] = supp.name.Object.__dict__.get('__hash__')
        supp.util.Location.__hash__ = _loc_hash
        supp.name.MultiName.__hash__ = _multi_hash
        supp.name.Object.__hash__ = _obj_hash
        # id() of analysis objects is an address too: code that orders or keys by id() gets the keyed value
        # (module global `id` of every supp module; the builtin is untouched)
        for mod in _supp_modules():
            mod.id = _keyed_id
        _state['installed'] = True
    _state['seed'] = seed


def _supp_modules():
    import sys
    return [m for n, m in sorted(sys.modules.items())
            if (n == 'supp' or n.startswith('supp.')) and m is not None and n != 'supp.umsgpack']


def _keyed_id(obj):
    if isinstance(obj, (supp.util.Location, supp.name.MultiName, supp.name.Object)):
        return hash(obj)
    return id(obj)


def uninstall():
    if _state['installed']:
        for mod in _supp_modules():
            if mod.__dict__.get('id') is _keyed_id:
                del mod.id
        for cls, key in ((supp.util.Location, 'loc'), (supp.name.MultiName, 'multi'), (supp.name.Object, 'obj')):
            if _orig[key] is None:
                try:
                    del cls.__hash__
                except AttributeError:
                    pass
            else:
                cls.__hash__ = _orig[key]
        _state['installed'] = False
    _state['seed'] = None
