"""Delta debugging over lists, with a budget of test executions."""


class Budget(object):
    def __init__(self, n):
        self.left = n

    def take(self):
        if self.left <= 0:
            return False
        self.left -= 1
        return True


def ddmin(items, test, budget=None):
    """Return a (locally) minimal sub-list of `items` for which test(sublist) is true.
    `test(items)` is assumed true.  Order of items is preserved."""
    items = list(items)
    n = 2
    while len(items) >= 1:
        if len(items) == 1:
            if budget is None or budget.take():
                if test([]):
                    return []
            return items
        chunk = max(1, len(items) // n)
        subsets = [items[i:i + chunk] for i in range(0, len(items), chunk)]
        reduced = False
        # try complements (remove one chunk)
        for i in range(len(subsets)):
            if budget is not None and not budget.take():
                return items
            cand = [x for j, s in enumerate(subsets) if j != i for x in s]
            if test(cand):
                items = cand
                n = max(n - 1, 2)
                reduced = True
                break
        if not reduced:
            if chunk == 1:
                break
            n = min(n * 2, len(items))
    return items


def shrink_fields(case, fields, test, budget=None):
    """ddmin each list-valued field of dict `case` in turn (fields: list of keys or key paths)."""
    import copy
    case = copy.deepcopy(case)
    for path in fields:
        if isinstance(path, str):
            path = (path,)
        holder = case
        try:
            for k in path[:-1]:
                holder = holder[k]
            cur = holder[path[-1]]
        except (KeyError, IndexError, TypeError):
            continue
        if not isinstance(cur, list) or not cur:
            continue

        def t(cand, holder=holder, key=path[-1]):
            old = holder[key]
            holder[key] = cand
            try:
                return test(case)
            finally:
                holder[key] = old
        holder[path[-1]] = ddmin(cur, t, budget)
    return case
