"""Deterministic cooperative kernel.

Real OS threads carry the stacks (supp's code blocks in join(), recv_bytes(), lock acquisition), but
exactly one of them holds the *baton* at any time; every other one is parked on its own semaphore.
At each yield point (kernel primitive, or traced line/opcode of supp/remote.py) the scheduler - driven
by one seeded PRNG or by a recorded list of deviations - decides who gets the baton next.  Time is
discrete-event: when nothing is runnable the clock jumps to the earliest deadline."""
import dis
import sys
import threading
import traceback
import _thread

_RealThread = threading.Thread     # the kernel's own carrier threads are always real, whatever seam is installed

from . import prng


class KernelAbort(BaseException):
    """Raised inside simulated threads to unwind them when the run is over."""


class Diverged(Exception):
    """A replayed schedule could not be followed."""


class SimThreadState(object):
    __slots__ = ('tid', 'name', 'group', 'target', 'sem', 'real', 'started', 'finished', 'exc', 'exc_text',
                 'cond', 'deadline', 'timed_out', 'traced', 'last_label', 'prio', 'dead', 'result', 'wait_label', 'daemon')

    def __init__(self, tid, name, group, target, traced):
        self.tid = tid
        self.name = name
        self.group = group
        self.target = target
        self.sem = _thread.allocate_lock()     # used as a binary semaphore: held = 'no baton'
        self.sem.acquire()
        self.real = None
        self.started = False
        self.finished = False
        self.exc = None
        self.exc_text = None
        self.cond = None          # blocked iff cond is not None
        self.deadline = None
        self.timed_out = False
        self.traced = traced
        self.last_label = None
        self.prio = 0
        self.dead = False         # killed with its process group: never scheduled again
        self.result = None
        self.wait_label = None
        self.daemon = False


class Scheduler(object):
    """Base: default policy = continue the current thread; if it cannot run, lowest tid."""
    kind = 'default'

    def pick(self, kernel, cur, runnable, label):
        return None     # None = default


class RandomWalk(Scheduler):
    kind = 'random'

    def __init__(self, rng, p, p_access=None):
        self.rng = rng
        self.p = p
        self.p_access = p_access

    def pick(self, kernel, cur, runnable, label):
        if len(runnable) < 2:
            return None
        p = self.p
        if self.p_access is not None and label[0] == 'acc':
            p = self.p_access
        if cur is not None and cur in runnable and self.rng.random() >= p:
            return None
        return runnable[self.rng.randrange(len(runnable))]


class PCT(Scheduler):
    """Probabilistic concurrency testing: random priorities, d priority change points."""
    kind = 'pct'

    def __init__(self, rng, depth, horizon):
        self.rng = rng
        self.points = sorted(rng.randrange(1, max(2, horizon)) for _ in range(depth))
        self.low = 0

    def on_spawn(self, th):
        th.prio = self.rng.randrange(1000, 2000000)

    def pick(self, kernel, cur, runnable, label):
        while self.points and kernel.step >= self.points[0]:
            self.points.pop(0)
            if cur is not None:
                self.low -= 1
                cur.prio = self.low
        if len(runnable) < 2:
            return None
        return max(runnable, key=lambda t: (t.prio, -t.tid))


class Replay(Scheduler):
    kind = 'replay'

    def __init__(self, deviations):
        self.dev = {int(s): int(t) for s, t in deviations}

    def pick(self, kernel, cur, runnable, label):
        tid = self.dev.get(kernel.step)
        if tid is None:
            return None
        for t in runnable:
            if t.tid == tid:
                return t
        kernel.diverged = True
        return None


_ACCESS_ATTRS = frozenset(['prepare_thread', 'conn', 'proc'])
_access_cache = {}


def _access_offsets(code):
    try:
        return _access_cache[code]
    except KeyError:
        offs = set()
        for ins in dis.get_instructions(code):
            if ins.opname in ('LOAD_ATTR', 'STORE_ATTR', 'DELETE_ATTR') and ins.argval in _ACCESS_ATTRS:
                offs.add(ins.offset)
        _access_cache[code] = offs
        return offs


class Kernel(object):
    def __init__(self, scheduler, step_cap=200000, time_cap=3600.0, trace_file=None, opcode_funcs=(),
                 keep_events=0):
        self.sched = scheduler
        self.step_cap = step_cap
        self.time_cap = time_cap
        self.now = 0.0
        self.step = 0
        self.threads = []
        self.local = threading.local()
        self.deviations = []
        self.diverged = False
        self.aborted = False
        self.abort_reason = None
        self.log = prng.Log(keep=keep_events)
        self.trace_file = trace_file
        self.opcode_funcs = frozenset(opcode_funcs)
        self.done = threading.Event()
        self.switches = 0
        self.nondefault = 0
        self.timer_jumps = 0
        self.current = None
        self.harness_error = None
        self.probe_hooks = []     # callables(kernel, thread, label) run at traced yield points
        self.choice_log = None    # set to [] to record (step, alternative tids) at every real choice point

    # ------------------------------------------------------------ threads
    def me(self):
        return getattr(self.local, 'th', None)

    def spawn(self, target, name, group='client', traced=False):
        th = SimThreadState(len(self.threads), name, group, target, traced)
        self.threads.append(th)
        on = getattr(self.sched, 'on_spawn', None)
        if on:
            on(th)
        th.real = _RealThread(target=self._bootstrap, args=(th,), name='sim-%d-%s' % (th.tid, name))
        th.real.daemon = True
        th.started = True
        self.log.add('spawn', th.tid, name)
        th.real.start()
        return th

    def _bootstrap(self, th):
        self.local.th = th
        th.sem.acquire()
        try:
            if self.aborted or th.dead:
                raise KernelAbort()
            th.result = th.target()
        except KernelAbort:
            pass
        except BaseException as e:   # noqa
            th.exc = e
            th.exc_text = traceback.format_exc()
        finally:
            th.finished = True
            if not self.aborted:
                self.log.add('exit', th.tid, type(th.exc).__name__ if th.exc else None)
            if not self.aborted:
                try:
                    self._handoff(th, ('exit',))
                except KernelAbort:
                    pass

    # ------------------------------------------------------------ pre-emption points in traced code
    # sys.monitoring (PEP 669) local events on the code objects of supp/remote.py: LINE everywhere,
    # INSTRUCTION in the functions named by opcode_funcs.  (sys.settrace was tried first: under 3.12 a frame's
    # f_trace_opcodes set from the 'call' event only takes effect from the second execution of a code object
    # in a process, which made the first run of a worker differ from its replay.)
    TOOL = 4

    def install_tracing(self, codes):
        mon = sys.monitoring
        if mon.get_tool(self.TOOL) is None:
            mon.use_tool_id(self.TOOL, 'suppsim')
        mon.register_callback(self.TOOL, mon.events.LINE, self._on_line)
        mon.register_callback(self.TOOL, mon.events.INSTRUCTION, self._on_instruction)
        self._codes = list(codes)
        for code in self._codes:
            ev = mon.events.LINE
            if code.co_name in self.opcode_funcs:
                ev |= mon.events.INSTRUCTION
            mon.set_local_events(self.TOOL, code, ev)

    def remove_tracing(self):
        mon = sys.monitoring
        for code in getattr(self, '_codes', ()):
            mon.set_local_events(self.TOOL, code, 0)
        mon.register_callback(self.TOOL, mon.events.LINE, None)
        mon.register_callback(self.TOOL, mon.events.INSTRUCTION, None)

    def _on_line(self, code, lineno):
        th = getattr(self.local, 'th', None)
        if th is None or not th.traced:
            return
        self.yield_point(('line', lineno))

    def _on_instruction(self, code, offset):
        th = getattr(self.local, 'th', None)
        if th is None or not th.traced:
            return
        if offset in _access_offsets(code):
            self.yield_point(('acc', code.co_name, offset))
        else:
            self.yield_point(('op', code.co_name, offset))

    # ------------------------------------------------------------ scheduling
    def _runnable(self):
        out = []
        for t in self.threads:
            if t.finished or t.dead or not t.started:
                continue
            if t.cond is not None:
                try:
                    ok = t.cond()
                except KernelAbort:
                    raise
                if not ok:
                    continue
            out.append(t)
        return out

    def _choose(self, cur, label):
        """Pick the thread that runs next.  Advances the clock when nothing is runnable."""
        while True:
            runnable = self._runnable()
            if runnable:
                break
            timers = [t for t in self.threads
                      if not t.finished and not t.dead and t.cond is not None and t.deadline is not None]
            if not timers:
                live = [t for t in self.threads if not t.finished and not t.dead]
                if live:
                    self._abort('deadlock')
                else:
                    self._abort('all-finished')
                return None
            nxt = min(t.deadline for t in timers)
            if nxt > self.time_cap:
                self._abort('time-cap')
                return None
            self.now = max(self.now, nxt)
            self.timer_jumps += 1
            for t in timers:
                if t.deadline <= self.now:
                    t.timed_out = True
                    t.cond = None
                    t.deadline = None
        self.step += 1
        if self.step > self.step_cap:
            self._abort('step-cap')
            return None
        if cur is not None and cur in runnable:
            default = cur
        else:
            default = runnable[0]
        if self.choice_log is not None and len(runnable) > 1:
            self.choice_log.append((self.step, [t.tid for t in runnable if t is not default]))
        pick = self.sched.pick(self, cur, runnable, label)
        if pick is None:
            pick = default
        elif pick is not default:
            self.deviations.append((self.step, pick.tid))
            self.nondefault += 1
        self.log.add(self.step, cur.tid if cur else -1, label, pick.tid, round(self.now, 6))
        return pick

    def _handoff(self, th, label):
        """Current thread gives the baton away (it is finished or will park itself)."""
        nxt = self._choose(None if th.finished else th, label)
        if nxt is None:
            if th.finished:
                return
            raise KernelAbort()
        if nxt is not th:
            self.switches += 1
            self.current = nxt
            nxt.sem.release()
            if not th.finished:
                th.sem.acquire()
                if self.aborted or th.dead:
                    raise KernelAbort()

    def yield_point(self, label):
        th = self.me()
        if th is None:
            return
        if self.aborted or th.dead:
            raise KernelAbort()
        th.last_label = label
        for h in self.probe_hooks:
            h(self, th, label)
        self._handoff(th, label)

    def block(self, cond, timeout=None, label=('block',)):
        """Park the current thread until cond() holds or `timeout` simulated seconds pass.
        Returns True if cond held, False on timeout."""
        th = self.me()
        if th is None:
            raise RuntimeError('block() outside a simulated thread')
        if self.aborted or th.dead:
            raise KernelAbort()
        th.last_label = label
        th.wait_label = label
        if cond():
            self._handoff(th, label)
            return True
        th.cond = cond
        th.deadline = None if timeout is None else self.now + timeout
        th.timed_out = False
        self._handoff(th, label)
        # we hold the baton again: either cond holds or the deadline passed
        timed_out = th.timed_out
        th.cond = None
        th.deadline = None
        th.timed_out = False
        th.wait_label = None
        return not timed_out

    def sleep(self, seconds, label=('sleep',)):
        self.block(lambda: False, timeout=max(0.0, seconds), label=label)

    def _abort(self, reason):
        if not self.aborted:
            self.aborted = True
            self.abort_reason = reason
            self.log.add('abort', reason, self.step)
            self.final_digest = self.log.digest()
        self.done.set()

    def kill_group(self, group):
        """Crash a process: its threads are never scheduled again."""
        for t in self.threads:
            if t.group == group and not t.finished:
                t.dead = True
        self.log.add('kill', group)

    # ------------------------------------------------------------ driving a run
    def run(self, main_fn, name='main', group='client', traced=False, real_timeout=60.0):
        """Run main_fn as the first simulated thread; returns when it has finished (or the run was
        aborted: deadlock, caps).  Remaining threads are then unwound with KernelAbort."""
        def wrapper():
            try:
                return main_fn()
            finally:
                self.main_finished = True
                self._abort('main-finished')
        self.main_finished = False
        main = self.spawn(wrapper, name, group, traced)
        self.current = main
        main.sem.release()
        if not self.done.wait(real_timeout):
            self.harness_error = 'real-time timeout in kernel.run'
        if not self.aborted:
            self._abort('harness-timeout')
        reason = self.abort_reason
        for t in self.threads:
            try:
                t.sem.release()
            except RuntimeError:
                pass
        for t in self.threads:
            t.real.join(5.0)
            if t.real.is_alive() and self.harness_error is None:
                self.harness_error = 'thread %s did not unwind' % t.name
        self.final_reason = reason
        return main
