"""File-system seam for the history engine: real files in a private scratch directory, every modification time
set from a simulated mtime clock, and wrappers around os.stat / os.listdir / builtins.open (filtered to paths
under the scratch root) that count the I/O calls supp makes and give the simulator a decision point before
every one of them - that is where an editor "saves a file in the middle of a request"."""
import builtins
import os


class FsSeam(object):
    def __init__(self, root):
        self.root = root
        self.prefix = root.rstrip(os.sep) + os.sep
        self.calls = 0
        self.log = []
        self.hook = None          # callable(kind, path, index) run before each I/O call under root
        self.opened = set()       # paths opened since reset_request() (the hook may want "stat after open")
        self._saved = None
        self.in_hook = False

    def _mine(self, path):
        try:
            p = os.fspath(path)
        except TypeError:
            return False
        return isinstance(p, str) and (p.startswith(self.prefix) or p == self.root)

    def _point(self, kind, path):
        if self.in_hook:
            return
        idx = self.calls
        self.calls += 1
        if kind == 'stat' and os.fspath(path) in self.opened:
            kind = 'stat_after_open'
        elif kind == 'open':
            self.opened.add(os.fspath(path))
        if len(self.log) < 400:
            self.log.append((kind, os.fspath(path)[len(self.prefix):]))
        if self.hook is not None:
            self.in_hook = True
            try:
                self.hook(kind, path, idx)
            finally:
                self.in_hook = False

    def install(self):
        seam = self
        o_stat, o_listdir, o_open = os.stat, os.listdir, builtins.open
        self._saved = (o_stat, o_listdir, o_open)

        def stat(path, *a, **kw):
            if seam._mine(path):
                seam._point('stat', path)
            return o_stat(path, *a, **kw)

        def listdir(path='.'):
            if seam._mine(path):
                seam._point('listdir', path)
            return o_listdir(path)

        def open_(file, *a, **kw):
            if seam._mine(file):
                seam._point('open', file)
            return o_open(file, *a, **kw)
        os.stat = stat
        os.listdir = listdir
        builtins.open = open_

    def uninstall(self):
        if self._saved:
            os.stat, os.listdir, builtins.open = self._saved
            self._saved = None


class MtimeClock(object):
    """Simulated clock the editor's saves are stamped with.  Steps may be negative (checkout of an older file,
    clock correction); a file never gets a stamp it already had (a cache validated by modification time cannot
    be asked to notice that, and the property's domain is edits that change the modification time)."""
    BASE_NS = 1700000000 * 10 ** 9

    def __init__(self):
        self.now_ns = self.BASE_NS
        self.used = {}
        self.lo = self.now_ns
        self.hi = self.now_ns

    def stamp(self, path, dt_ms):
        self.now_ns += int(dt_ms * 10 ** 6)
        if self.now_ns < 10 ** 9:
            self.now_ns = 10 ** 9
        used = self.used.setdefault(path, set())
        while self.now_ns in used:
            self.now_ns += 10 ** 6
        used.add(self.now_ns)
        self.lo = min(self.lo, self.now_ns)
        self.hi = max(self.hi, self.now_ns)
        return self.now_ns
