"""File-system seam for the history engine: real files in a private scratch directory, every modification time
set from a simulated mtime clock, and wrappers around os.stat / os.listdir / builtins.open (filtered to paths
under the scratch root) that count the I/O calls supp makes and give the simulator a decision point before
every one of them - that is where an editor "saves a file in the middle of a request"."""
import builtins
import os


class FsSeam(object):
    def __init__(self, root):
        self.root = root
        self.prefix = root.rstrip(os.sep) + os.sep
        self.calls = 0
        self.log = []
        self.hook = None          # callable(kind, path, index) run before each I/O call under root
        self.opened = set()       # paths opened since reset_request() (the hook may want "stat after open")
        self._saved = None
        self.in_hook = False

    def _mine(self, path):
        try:
            p = os.fspath(path)
        except TypeError:
            return False
        return isinstance(p, str) and (p.startswith(self.prefix) or p == self.root)

    def _point(self, kind, path):
        if self.in_hook:
            return
        idx = self.calls
        self.calls += 1
        if kind == 'stat' and os.fspath(path) in self.opened:
            kind = 'stat_after_open'
        elif kind == 'open':
            self.opened.add(os.fspath(path))
        if len(self.log) < 400:
            self.log.append((kind, os.fspath(path)[len(self.prefix):]))
        if self.hook is not None:
            self.in_hook = True
            try:
                self.hook(kind, path, idx)
            finally:
                self.in_hook = False

    def install(self):
        seam = self
        o_stat, o_listdir, o_open = os.stat, os.listdir, builtins.open
        self._saved = (o_stat, o_listdir, o_open)

        def stat(path, *a, **kw):
            if seam._mine(path):
                seam._point('stat', path)
            return o_stat(path, *a, **kw)

        def listdir(path='.'):
            if seam._mine(path):
                seam._point('listdir', path)
            return o_listdir(path)

        def open_(file, *a, **kw):
            if seam._mine(file):
                seam._point('open', file)
            return o_open(file, *a, **kw)
        os.stat = stat
        os.listdir = listdir
        builtins.open = open_

    def uninstall(self):
        if self._saved:
            os.stat, os.listdir, builtins.open = self._saved
            self._saved = None


class MtimeClock(object):
    """Simulated clock the editor's saves are stamped with.  Steps may be negative (checkout of an older file,
    clock correction), and a file may return to a stamp it had long ago.  What is never generated is a stamp the
    file had at any moment since the start of the request before the last one started: a cache validated by
    modification time cannot notice a change that brings the time back to the value it saw last (and what it saw
    last may date from before an edit made in the middle of the last request), and the property's domain is edits
    that change the modification time."""
    BASE_NS = 1700000000 * 10 ** 9

    def __init__(self):
        self.now_ns = self.BASE_NS
        self.used = {}       # path -> every stamp the file ever had
        self.recent = {}     # path -> stamps the file had since the start of the last request
        self.current = {}
        self.gen0 = {}       # path -> stamps since the start of the last request
        self.lo = self.now_ns
        self.hi = self.now_ns
        self.reused = 0

    def request_starts(self):
        gen0 = self.gen0
        self.gen0 = {p: {s} for p, s in self.current.items()}
        self.recent = {p: set(v) | gen0.get(p, set()) for p, v in self.gen0.items()}

    def stamp(self, path, dt_ms, reuse=None):
        """reuse: a number in [0,1) selecting one of the file's older stamps instead of a clock step."""
        recent = self.recent.setdefault(path, set())
        old = sorted(self.used.get(path, set()) - recent)
        if reuse is not None and old:
            ns = old[int(reuse * len(old))]
            self.reused += 1
        else:
            self.now_ns += int(dt_ms * 10 ** 6)
            if self.now_ns < 10 ** 9:
                self.now_ns = 10 ** 9
            while self.now_ns in recent:
                self.now_ns += 10 ** 6
            ns = self.now_ns
        self.used.setdefault(path, set()).add(ns)
        recent.add(ns)
        self.gen0.setdefault(path, set()).add(ns)
        self.current[path] = ns
        self.lo = min(self.lo, ns)
        self.hi = max(self.hi, ns)
        return ns
