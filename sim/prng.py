"""Seed derivation.  One integer decides a run: every engine derives the PRNG of run `i`
from (VERIF_SEED, engine id, stream label, i) with a keyed hash, so runs are independent of the
worker that executes them and of the order in which they are executed."""
import hashlib
import random


def derive(*parts):
    h = hashlib.blake2b(repr(parts).encode('utf-8'), digest_size=8)
    return int.from_bytes(h.digest(), 'big')


def rng(*parts):
    return random.Random(derive(*parts))


def digest(obj):
    """Stable digest of a JSON-like object (used for event-log digests)."""
    h = hashlib.blake2b(digest_size=8)
    _feed(h, obj)
    return h.hexdigest()


def _feed(h, obj):
    if isinstance(obj, (list, tuple)):
        h.update(b'[')
        for it in obj:
            _feed(h, it)
        h.update(b']')
    elif isinstance(obj, dict):
        h.update(b'{')
        for k in sorted(obj, key=repr):
            _feed(h, k)
            _feed(h, obj[k])
        h.update(b'}')
    elif isinstance(obj, (set, frozenset)):
        h.update(b'<')
        for k in sorted(obj, key=repr):
            _feed(h, k)
        h.update(b'>')
    else:
        h.update(repr(obj).encode('utf-8', 'backslashreplace'))
        h.update(b';')


class Log(object):
    """Event log whose digest identifies an execution.  Appending never draws from a PRNG and
    never reads a clock.  Events are tuples of ints, floats, strs, None and nested tuples/lists of
    those, so that repr() is a stable serialisation."""
    def __init__(self, keep=0):
        self.h = hashlib.blake2b(digest_size=8)
        self.n = 0
        self.keep = keep
        self.events = []
        self.buf = []

    def add(self, *event):
        self.n += 1
        self.buf.append(event)
        if self.keep and len(self.events) < self.keep:
            self.events.append(event)
        if len(self.buf) >= 2048:
            self._flush()

    def _flush(self):
        if self.buf:
            self.h.update(repr(self.buf).encode('utf-8', 'backslashreplace'))
            self.buf = []

    def digest(self):
        self._flush()
        return self.h.hexdigest()
