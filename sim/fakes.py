"""In-process stand-ins for the operating-system services supp's client and server use:
threads and locks, clock and sleep, process launch, listener/client/connection.

A World owns one Kernel and all fake state of one simulated run, and installs/removes the seams
(module globals of supp.remote, attributes of subprocess / multiprocessing.connection, sys.argv)."""
import logging
import os
import sys

from .kernel import KernelAbort

EPOCH = 1700000000.0


class SimTime(object):
    """Replacement for the `time` module global of supp.remote."""
    def __init__(self, world):
        self.w = world

    def time(self):
        self.w.k.yield_point(('prim', 'time'))
        return EPOCH + self.w.k.now

    def sleep(self, seconds):
        self.w.count('sleep')
        self.w.k.sleep(seconds, ('prim', 'sleep'))


class SimLock(object):
    def __init__(self, world):
        self.w = world
        self.owner = None
        self.waiters = 0

    def acquire(self, blocking=True, timeout=-1):
        k = self.w.k
        k.yield_point(('prim', 'lock.acquire'))
        if self.owner is None:
            self.owner = k.me()
            return True
        if not blocking:
            return False
        self.waiters += 1
        self.w.probe('lock_contended')
        if self.waiters >= 2:
            self.w.probe('two_waiters_on_lock')
        try:
            ok = k.block(lambda: self.owner is None, None if timeout is None or timeout < 0 else timeout,
                         ('prim', 'lock.wait'))
        finally:
            self.waiters -= 1
        if ok:
            self.owner = k.me()
        return ok

    def release(self):
        if self.owner is None:
            raise RuntimeError('release unlocked lock')
        self.owner = None
        self.w.k.yield_point(('prim', 'lock.release'))

    def locked(self):
        return self.owner is not None

    def __enter__(self):
        self.acquire()
        return self

    def __exit__(self, *a):
        self.release()


class SimSemaphore(object):
    """threading.Semaphore / BoundedSemaphore on the kernel (also stands in for such an object that the client
    module created at import time, with the value it had then)."""
    def __init__(self, value=1, bound=None):
        self.w = World.current
        self.value = value
        self.bound = bound

    def acquire(self, blocking=True, timeout=None):
        k = self.w.k
        k.yield_point(('prim', 'sem.acquire'))
        if self.value > 0:
            self.value -= 1
            return True
        if not blocking:
            return False
        ok = k.block(lambda: self.value > 0, None if timeout is None or timeout < 0 else timeout, ('prim', 'sem.wait'))
        if ok:
            self.value -= 1
        return ok

    def release(self, n=1):
        if self.bound is not None and self.value + n > self.bound:
            raise ValueError('Semaphore released too many times')
        self.value += n
        self.w.k.yield_point(('prim', 'sem.release'))

    def __enter__(self):
        self.acquire()
        return self

    def __exit__(self, *a):
        self.release()


class SimEvent(object):
    def __init__(self, flag=False):
        self.w = World.current
        self.flag = flag

    def is_set(self):
        return self.flag

    def set(self):
        self.flag = True
        self.w.k.yield_point(('prim', 'event.set'))

    def clear(self):
        self.flag = False

    def wait(self, timeout=None):
        k = self.w.k
        k.yield_point(('prim', 'event.wait'))
        if self.flag:
            return True
        return k.block(lambda: self.flag, timeout, ('prim', 'event.wait'))


class SimThread(object):
    """Replacement for threading.Thread as used by supp.remote (target=, start, join, is_alive)."""
    def __init__(self, group=None, target=None, name=None, args=(), kwargs=None, daemon=None):
        self._w = World.current
        self._target = target
        self._args = args
        self._kwargs = kwargs or {}
        self.name = name or 'starter'
        self.daemon = daemon
        self._th = None

    def run(self):
        if self._target is not None:
            self._target(*self._args, **self._kwargs)

    def start(self):
        if self._th is not None:
            raise RuntimeError('threads can only be started once')
        w = self._w
        w.count('thread_start')
        me = w.k.me()
        group = me.group if me else 'client'
        in_child = group in w.proc_by_group
        self._th = w.k.spawn(self.run, self.name, group=group, traced=not in_child)
        self._th.daemon = bool(self.daemon)
        if not in_child:
            w.starters.append(self._th)
        w.k.yield_point(('prim', 'thread.start'))

    def join(self, timeout=None):
        if self._th is None:
            raise RuntimeError('cannot join thread before it is started')
        th = self._th
        self._w.count('thread_join')
        if not th.finished:
            self._w.probe('join_waited_for_running_starter')
        self._w.k.block(lambda: th.finished, timeout, ('prim', 'thread.join'))

    def is_alive(self):
        return self._th is not None and not self._th.finished


class SimTimer(SimThread):
    """threading.Timer inside a simulated process: fires after `interval` simulated seconds unless cancelled."""
    def __init__(self, interval, function, args=None, kwargs=None):
        SimThread.__init__(self, target=function, args=args or (), kwargs=kwargs or {}, name='timer')
        self.interval = interval
        self._cancelled = False

    def run(self):
        self._w.count('timer_armed')
        self._w.k.block(lambda: self._cancelled, self.interval, ('prim', 'timer.wait'))
        if not self._cancelled:
            self._w.count('timer_fired')
            SimThread.run(self)

    def cancel(self):
        self._cancelled = True


class FakeConn(object):
    """One end of a message-atomic duplex connection (multiprocessing.connection.Connection)."""
    def __init__(self, world, name):
        self.w = world
        self.name = name
        self.inbox = []
        self.peer = None
        self.is_closed = False
        self.sent = 0
        self.received = 0

    # ---- helpers
    def _check_open(self):
        if self.is_closed:
            raise OSError('handle is closed')

    @property
    def closed(self):
        return self.is_closed

    def fileno(self):
        self._check_open()
        return 1000 + id(self) % 1000

    # ---- API used by supp
    def send_bytes(self, buf, offset=0, size=None):
        k = self.w.k
        k.yield_point(('prim', 'send', self.name))
        self._check_open()
        data = bytes(buf)[offset:] if size is None else bytes(buf)[offset:offset + size]
        if self.peer.is_closed:
            self.w.count('send_to_closed_peer')
            raise BrokenPipeError(32, 'Broken pipe')
        hook = self.w.send_hook
        if hook is not None:
            hook(self, data)
        self.peer.inbox.append(data)
        self.sent += 1
        self.w.on_send(self, data)

    def recv_bytes(self, maxlength=None):
        k = self.w.k
        k.yield_point(('prim', 'recv', self.name))
        self._check_open()
        if not self.inbox and not self.peer.is_closed:
            k.block(lambda: bool(self.inbox) or self.peer.is_closed or self.is_closed, None,
                    ('prim', 'recv.wait', self.name))
            self._check_open()
        if self.inbox:
            self.received += 1
            return self.inbox.pop(0)
        self.w.count('eof_seen')
        raise EOFError()

    def poll(self, timeout=0.0):
        k = self.w.k
        k.yield_point(('prim', 'poll', self.name))
        self._check_open()
        if self.inbox or self.peer.is_closed:
            return True
        if timeout is not None and timeout <= 0:
            return False
        ok = k.block(lambda: bool(self.inbox) or self.peer.is_closed or self.is_closed, timeout,
                     ('prim', 'poll.wait', self.name))
        self._check_open()
        if not ok:
            self.w.count('poll_timeout')
        return bool(self.inbox) or self.peer.is_closed

    def close(self):
        # closing is idempotent on the real class
        self.w.k.yield_point(('prim', 'close', self.name))
        self.is_closed = True

    def send(self, obj):
        raise NotImplementedError('supp uses send_bytes only')

    def recv(self):
        raise NotImplementedError('supp uses recv_bytes only')


def conn_pair(world, n):
    a = FakeConn(world, 'c%d' % n)
    b = FakeConn(world, 's%d' % n)
    a.peer = b
    b.peer = a
    return a, b


class FakeListener(object):
    def __init__(self, world, address=None, family=None, backlog=1, authkey=None):
        self.w = world
        self.address = address
        self.queue = []
        self.closed = False
        world.k.yield_point(('prim', 'listen'))
        if address in world.listeners and not world.listeners[address].closed:
            raise OSError(98, 'Address already in use')
        world.listeners[address] = self
        world.count('listen')

    def accept(self):
        k = self.w.k
        k.yield_point(('prim', 'accept'))
        if self.closed:
            raise OSError('listener is closed')
        if not self.queue:
            k.block(lambda: bool(self.queue), None, ('prim', 'accept.wait'))
        self.w.count('accept')
        return self.queue.pop(0)

    def close(self):
        self.closed = True


class FakeProc(object):
    """What FakePopen returns: the handle of a simulated child process."""
    def __init__(self, world, args, env):
        self.w = world
        self.args = list(args)
        self.env = env
        self.pid = 4000 + len(world.procs)
        self.returncode = None
        self.thread = None
        self.exc = None
        self.group = 'proc%d' % len(world.procs)

    def poll(self):
        return self.returncode

    def wait(self, timeout=None):
        self.w.k.block(lambda: self.returncode is not None, timeout, ('prim', 'proc.wait'))
        return self.returncode

    def kill(self):
        self.w.k.kill_group(self.group)
        self.returncode = -9
        self.w.close_descriptors(self)

    terminate = kill

    @property
    def alive(self):
        return self.returncode is None


class ArgvProxy(list):
    """sys.argv as seen from a simulated child process."""
    def __getitem__(self, i):
        w = World.current
        if w is not None:
            th = w.k.me()
            if th is not None and th.group in w.proc_by_group:
                return w.proc_by_group[th.group].args[1:][i]
        return list.__getitem__(self, i)


_server_code = {}


class World(object):
    current = None

    def __init__(self, kernel, repo, launch_delays=(), popen_failures=(), never_listen=()):
        self.k = kernel
        self.repo = repo
        self.listeners = {}
        self.procs = []
        self.proc_by_group = {}
        self.starters = []
        self.addr_counter = 0
        self.conn_counter = 0
        self.launch_delays = list(launch_delays)
        self.connect_delays = []
        self.popen_failures = set(popen_failures)
        self.never_listen = set(never_listen)
        self.counts = {}
        self.probes = {}
        self.send_hook = None
        self.sent_log = []
        self.connect_refused = 0
        self.client_conns = []
        self.server_conns = []
        self._saved = None
        self.server_code = None

    def count(self, name, n=1):
        self.counts[name] = self.counts.get(name, 0) + n

    def probe(self, name, n=1):
        self.probes[name] = self.probes.get(name, 0) + n

    def on_send(self, conn, data):
        pass

    # ------------------------------------------------------------ fakes bound to this world
    def arbitrary_address(self, family):
        self.addr_counter += 1
        return '/sim/%s/listener-%d' % (family, self.addr_counter)

    def Client(self, address, family=None, authkey=None):
        self.k.yield_point(('prim', 'connect'))
        lst = self.listeners.get(address)
        if lst is None:
            self.connect_refused += 1
            self.count('connect_refused')
            raise FileNotFoundError(2, 'No such file or directory')
        if lst.closed:
            self.connect_refused += 1
            self.count('connect_refused')
            raise ConnectionRefusedError(111, 'Connection refused')
        if self.connect_delays:
            # a connect that takes long although it succeeds (the launch budget of the client only covers refusals)
            d = self.connect_delays.pop(0)
            if d:
                self.count('slow_connect')
                self.k.sleep(d, ('prim', 'connect.slow'))
        self.conn_counter += 1
        c, s = conn_pair(self, self.conn_counter)
        lst.queue.append(s)
        self.client_conns.append(c)
        self.server_conns.append(s)
        self.count('connect_ok')
        return c

    def Listener(self, address=None, family=None, backlog=1, authkey=None):
        return FakeListener(self, address, family, backlog, authkey)

    def Popen(self, args, env=None, **kw):
        self.k.yield_point(('prim', 'popen'))
        idx = len(self.procs)
        if idx in self.popen_failures:
            self.count('popen_failed')
            # the launch attempt is recorded even though it fails
            p = FakeProc(self, args, env)
            p.returncode = 127
            self.procs.append(p)
            self.proc_by_group[p.group] = p
            raise OSError(2, 'No such file or directory: %r' % (args[0],))
        p = FakeProc(self, args, env)
        self.procs.append(p)
        self.proc_by_group[p.group] = p
        delay = self.launch_delays[idx] if idx < len(self.launch_delays) else 0.0
        never = idx in self.never_listen
        self.count('popen')

        def child():
            try:
                if delay:
                    self.k.sleep(delay, ('prim', 'child.startup'))
                if never:
                    self.k.block(lambda: False, None, ('prim', 'child.hung'))
                self.run_server_main(p)
                # a process lives as long as one of its non-daemon threads
                self.k.block(lambda: not any(t for t in self.k.threads
                                             if t.group == p.group and t is not p.thread and not t.finished
                                             and not t.dead and not t.daemon), None, ('prim', 'child.wait-threads'))
                p.returncode = 0
            except KernelAbort:
                raise
            except SystemExit as e:
                p.returncode = e.code if isinstance(e.code, int) else 1
            except BaseException as e:   # noqa
                p.exc = e
                p.returncode = 1
            finally:
                self.close_descriptors(p)
        p.thread = self.k.spawn(child, p.group, group=p.group, traced=False)
        return p

    def close_descriptors(self, p):
        """Process exit (or kill) closes every descriptor the process owned."""
        for c in self.server_conns:
            if getattr(c, 'proc', None) is p:
                c.is_closed = True
        for l in list(self.listeners.values()):
            if getattr(l, 'proc', None) is p:
                l.closed = True
                for c in l.queue:
                    c.is_closed = True

    def run_server_main(self, proc):
        """Execute supp/server.py's module body with __name__ == '__main__' (the real main block)."""
        path = os.path.join(self.repo, 'supp', 'server.py')
        if path not in _server_code:
            with open(path) as f:
                _server_code[path] = compile(f.read(), path, 'exec')
        self.server_code = _server_code[path]
        g = {'__name__': '__main__', '__file__': path, '__builtins__': __builtins__}
        proc.globals = g
        exec(self.server_code, g)

    # ------------------------------------------------------------ seams
    def install(self):
        import subprocess
        import multiprocessing.connection as mc
        import supp.remote as remote
        World.current = self
        w = self
        import threading
        import time as _time
        self._saved = (subprocess.Popen, mc.Client, mc.Listener, mc.arbitrary_address,
                       remote.Thread, remote.Lock, remote.time, sys.argv, threading.Thread, threading.Timer, _time.sleep)
        real_sleep = _time.sleep

        def sim_sleep(seconds):
            # code executed inside a simulated thread (a request that takes long on the server) sleeps on the
            # virtual clock; anything else keeps the real call
            if w.k.me() is not None:
                w.count('simulated_sleep')
                w.k.sleep(seconds, ('prim', 'time.sleep'))
            else:
                real_sleep(seconds)
        _time.sleep = sim_sleep

        def Popen(args, env=None, **kw):
            return w.Popen(args, env=env, **kw)

        def Client(address, family=None, authkey=None):
            return w.Client(address, family, authkey)

        def Listener(address=None, family=None, backlog=1, authkey=None):
            l = w.Listener(address, family, backlog, authkey)
            th = w.k.me()
            l.proc = w.proc_by_group.get(th.group) if th else None
            orig_accept = l.accept

            def accept():
                c = orig_accept()
                c.proc = l.proc
                return c
            l.accept = accept
            return l

        subprocess.Popen = Popen
        mc.Client = Client
        mc.Listener = Listener
        mc.arbitrary_address = w.arbitrary_address
        remote.Thread = SimThread
        remote.Lock = lambda: SimLock(w)
        remote.time = SimTime(w)
        # whatever else the client module took from `threading` by name (a Timer, say) runs on the virtual clock too
        self._saved_extra = {}
        real = {'Timer': self._saved[9], 'Semaphore': threading.Semaphore, 'BoundedSemaphore': threading.BoundedSemaphore,
                'Event': threading.Event}
        lock_type = type(threading.Lock())
        for name, val in list(vars(remote).items()):
            new = None
            if val is real['Timer'] and name != 'Thread':
                new = SimTimer
            elif val is real['BoundedSemaphore']:
                new = lambda value=1: SimSemaphore(value, value)
            elif val is real['Semaphore']:
                new = lambda value=1: SimSemaphore(value)
            elif val is real['Event']:
                new = SimEvent
            # synchronisation objects the module created when it was imported
            elif isinstance(val, real['BoundedSemaphore']):
                new = SimSemaphore(val._value, val._initial_value)
            elif isinstance(val, real['Semaphore']):
                new = SimSemaphore(val._value)
            elif isinstance(val, real['Event']):
                new = SimEvent(val.is_set())
            elif isinstance(val, lock_type):
                new = SimLock(w)
            if new is not None:
                self._saved_extra[name] = val
                setattr(remote, name, new)
        sys.argv = ArgvProxy(sys.argv)
        # threads and timers created by code running inside a simulated process (the kernel keeps the real class)
        threading.Thread = SimThread
        threading.Timer = SimTimer

    def uninstall(self):
        import subprocess
        import multiprocessing.connection as mc
        import supp.remote as remote
        import threading
        import time as _time
        (subprocess.Popen, mc.Client, mc.Listener, mc.arbitrary_address,
         remote.Thread, remote.Lock, remote.time, sys.argv, threading.Thread, threading.Timer, _time.sleep) = self._saved
        for name, val in getattr(self, '_saved_extra', {}).items():
            setattr(remote, name, val)
        World.current = None


def quiet_logging():
    """server.py's main block calls logging.basicConfig(); with a handler already on the root logger that
    call changes nothing, so simulated servers never reconfigure the harness process."""
    root = logging.getLogger()
    if not root.handlers:
        root.addHandler(logging.NullHandler())
    root.setLevel(logging.CRITICAL + 1)
    logging.getLogger('server').setLevel(logging.ERROR)
    logging.getLogger('supp').setLevel(logging.CRITICAL + 1)
