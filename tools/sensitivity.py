#!/venv/bin/python
"""Sensitivity proof: apply a mutant (a realistic breaking change) to a scratch copy of /repo, check that the
repository's own test suite still passes on it, run the property's check against the copy and require a
VIOLATION.  Scratch copies live under /tmp and are removed immediately.

usage: tools/sensitivity.py [--tier quick] [--keep-going] [--only C16[/name]] [--seeded] [--no-tests]
Mutants:  mutants/<property>/<name>.json   {"edits": [{"file": ..., "old": ..., "new": ...}], "note": ...}
          seeded/<id>/patch.diff + meta.json  (changes written by independent sub-agents)
Results are written to reports/sensitivity.json."""
import argparse
import json
import os
import shutil
import subprocess
import sys
import tempfile
import time

VERIF = os.path.dirname(os.path.dirname(os.path.abspath(__file__)))
REPO = '/repo'
PY = '/venv/bin/python'


def make_copy():
    d = tempfile.mkdtemp(prefix='supp-mut-', dir='/tmp')
    subprocess.check_call(['rsync', '-a', '--exclude', '.git', '--exclude', '__pycache__', '--exclude', '*.pyc',
                           REPO + '/', d + '/'])
    return d


def apply_edits(copy, edits):
    for e in edits:
        p = os.path.join(copy, e['file'])
        with open(p) as f:
            s = f.read()
        n = s.count(e['old'])
        if n != 1:
            raise RuntimeError('edit does not apply exactly once (%d matches) in %s: %r' % (n, e['file'], e['old'][:80]))
        with open(p, 'w') as f:
            f.write(s.replace(e['old'], e['new']))


def apply_patch(copy, patch):
    subprocess.check_call(['git', 'init', '-q'], cwd=copy)
    try:
        subprocess.check_call(['git', 'apply', '--whitespace=nowarn', os.path.abspath(patch)], cwd=copy)
    finally:
        shutil.rmtree(os.path.join(copy, '.git'), ignore_errors=True)


def kill_leftovers(copy):
    """Processes started from the scratch copy that outlived their parent (a mutant may make the real server spin
    forever after its client is gone): they would eat a core for the rest of the session."""
    import signal
    for pid in os.listdir('/proc'):
        if not pid.isdigit() or int(pid) == os.getpid():
            continue
        try:
            with open('/proc/%s/cmdline' % pid, 'rb') as f:
                cmd = f.read().decode('utf-8', 'replace')
        except OSError:
            continue
        if copy in cmd:
            try:
                os.kill(int(pid), signal.SIGKILL)
            except OSError:
                pass


def run_tests(copy):
    env = dict(os.environ, PYTHONPATH=copy, PYTHONDONTWRITEBYTECODE='1')
    p = subprocess.run([PY, '-m', 'pytest', '-q', '-p', 'no:cacheprovider', '-x', '--timeout=600'], cwd=copy, env=env,
                       stdout=subprocess.PIPE, stderr=subprocess.STDOUT)
    tail = p.stdout.decode('utf-8', 'replace').strip().splitlines()[-1:]
    return p.returncode == 0, (tail[0] if tail else '')


def run_check(copy, pid, tier, extra=()):
    env = dict(os.environ, SUPP_REPO=copy, VERIF_OUT=os.path.join(copy, '.verif-out'))
    t = time.time()
    p = subprocess.run([os.path.join(VERIF, 'check'), pid, '--tier', tier, '--no-evidence'] + list(extra),
                       cwd=VERIF, env=env, stdout=subprocess.PIPE, stderr=subprocess.STDOUT)
    out = p.stdout.decode('utf-8', 'replace')
    sigs = [l[len('violation signature: '):] for l in out.splitlines() if l.startswith('violation signature: ')]
    rc = p.returncode
    if rc == 1 and not any(l.startswith('VIOLATION property=') for l in out.splitlines()):
        rc = 3      # exit 1 without a VIOLATION line: the check crashed, that is not a detection
    return rc, sigs, time.time() - t, out


def main():
    ap = argparse.ArgumentParser()
    ap.add_argument('--tier', default='quick')
    ap.add_argument('--only', default='')
    ap.add_argument('--seeded', action='store_true', help='also run the sub-agent written changes under seeded/')
    ap.add_argument('--no-tests', action='store_true')
    ap.add_argument('--props', default='', help='for seeded changes: run these checks instead of meta.json property')
    args = ap.parse_args()

    jobs = []
    mdir = os.path.join(VERIF, 'mutants')
    for pid in sorted(os.listdir(mdir)) if os.path.isdir(mdir) else []:
        for fn in sorted(os.listdir(os.path.join(mdir, pid))):
            if fn.endswith('.json'):
                jobs.append(('mutant', pid, fn[:-5], os.path.join(mdir, pid, fn)))
    if args.seeded:
        sdir = os.path.join(VERIF, 'seeded')
        for name in sorted(os.listdir(sdir)) if os.path.isdir(sdir) else []:
            meta = os.path.join(sdir, name, 'meta.json')
            if os.path.exists(meta):
                with open(meta) as f:
                    m = json.load(f)
                jobs.append(('seeded', m['property'], name, os.path.join(sdir, name, 'patch.diff')))
    if args.only:
        jobs = [j for j in jobs if (j[1] + '/' + j[2]).startswith(args.only) or j[2].startswith(args.only)]

    results = []
    for kind, pid, name, path in jobs:
        copy = make_copy()
        try:
            one_job(kind, pid, name, path, copy, args, results)
        except Exception as e:
            print('%-7s %-4s %-40s NOT RUN: %s' % (kind, pid, name, str(e)[:160]))
            results.append({'kind': kind, 'property': pid, 'name': name, 'detected': False, 'check_rc': None,
                            'error': str(e)[:300]})
        finally:
            kill_leftovers(copy)
            shutil.rmtree(copy, ignore_errors=True)
    finish(results, args)
    return 1 if [r for r in results if not r['detected']] else 0


def one_job(kind, pid, name, path, copy, args, results):
        if True:
            if kind == 'mutant':
                with open(path) as f:
                    spec = json.load(f)
                apply_edits(copy, spec['edits'])
                note = spec.get('note', '')
            else:
                apply_patch(copy, path)
                note = 'seeded change'
            tests_ok, tests_tail = (None, 'skipped') if args.no_tests else run_tests(copy)
            rc, sigs, wall, out = run_check(copy, pid, args.tier)
            used = pid
            if kind == 'seeded' and rc != 1:
                # a change written against one property may be decided by the check of another one (meta.json: also_try)
                with open(os.path.join(VERIF, 'seeded', name, 'meta.json')) as f:
                    also = json.load(f).get('also_try') or []
                for other in also:
                    rc2, sigs2, wall2, out2 = run_check(copy, other, args.tier)
                    wall += wall2
                    if rc2 == 1:
                        rc, sigs, out, used = rc2, sigs2, out2, other
                        break
            res = {'kind': kind, 'property': pid, 'name': name, 'note': note, 'tests_pass': tests_ok,
                   'tests': tests_tail, 'check_rc': rc, 'detected': rc == 1, 'signatures': sigs[:6],
                   'wall_s': round(wall, 1)}
            if rc not in (0, 1):
                res['output_tail'] = out[-1500:]
            results.append(res)
            if kind == 'seeded':
                mp = os.path.join(VERIF, 'seeded', name, 'meta.json')
                with open(mp) as f:
                    meta = json.load(f)
                meta['detected_by'] = ('./check %s --tier %s' % (used, args.tier)) if rc == 1 else None
                if meta.get('out_of_reach'):
                    # documented limit: recorded as missed, does not make the tool fail
                    res['out_of_reach'] = meta['out_of_reach']
                meta['detection'] = {'check_exit': rc, 'signatures': sigs[:6], 'wall_s': round(wall, 1)}
                with open(mp, 'w') as f:
                    json.dump(meta, f, indent=1)
            print('%-7s %-4s %-40s tests=%-5s rc=%d %-9s %5.1fs %s' % (
                kind, pid, name, tests_ok, rc, 'DETECTED' if rc == 1 else (
                    ('MISSED (out of reach, see meta.json)' if res.get('out_of_reach') else 'MISSED') if rc == 0 else 'ERROR'),
                wall, '; '.join(sigs[:3])))
            sys.stdout.flush()


def finish(results, args):
    os.makedirs(os.path.join(VERIF, 'reports'), exist_ok=True)
    outp = os.path.join(VERIF, 'reports', 'sensitivity.json')
    old = []
    if args.only and os.path.exists(outp):
        with open(outp) as f:
            old = [r for r in json.load(f)['results']
                   if not any(r['property'] == x['property'] and r['name'] == x['name'] for x in results)]
    with open(outp, 'w') as f:
        json.dump({'results': sorted(old + results, key=lambda r: (r['property'], r['kind'], r['name']))}, f, indent=1)
    bad = [r for r in results if not r['detected'] and not r.get('out_of_reach')]
    return 1 if bad else 0


if __name__ == '__main__':
    sys.exit(main())
