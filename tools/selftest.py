#!/venv/bin/python
"""Large determinism self-test: for every engine, N single-run units are executed in three configurations
  A: PYTHONHASHSEED=0,    1 fresh interpreter,  forward order
  B: PYTHONHASHSEED=4242, 8 fresh interpreters (interleaved shards), reverse order
  C: PYTHONHASHSEED=1,    3 fresh interpreters, seeded shuffle
and the per-run event-log digests are compared.  Any difference means one seed is not one execution.
usage: tools/selftest.py [n per engine] [engine ids...]       writes reports/selftest.json"""
import json
import os
import random
import subprocess
import sys
import time

VERIF = os.path.dirname(os.path.dirname(os.path.abspath(__file__)))
PY = '/venv/bin/python'

MODES = {
    'C04': ['small', 'flow', 'project', 'heavy', 'shape'], 'C09': ['main', 'chain'], 'C14': ['sequences', 'random'],
    'C15': ['main', 'exh', 'reconf'], 'C16': ['main', 'launchfail'], 'C17': ['flow', 'project'],
}

CHILD = r'''
import sys, json
sys.path.insert(0, %r)
from sim import runner
pid = sys.argv[1]
units = json.loads(sys.stdin.read())
eng = runner.load_engine(pid)
init = getattr(eng, 'worker_init', None)
if init: init()
out = {}
for key, u in units:
    out[key] = eng.run_unit(u)['digest']
print('DIGESTS ' + json.dumps(out))
''' % VERIF


def unit(pid, mode, i, seed):
    if pid == 'C14':
        return {'kind': mode, 'seed': seed, 'first': i, 'count': 1, 'tier': 'quick'}
    if pid == 'C09' and mode == 'chain':
        return {'kind': 'runs', 'mode': 'chain', 'seed': seed, 'indices': [i * 37]}
    return {'kind': 'runs', 'mode': mode, 'seed': seed, 'first': i, 'count': 1, 'tier': 'quick'}


def run_config(pid, units, hashseed, nproc, order):
    units = list(units)
    if order == 'reverse':
        units.reverse()
    elif order == 'shuffle':
        random.Random(7).shuffle(units)
    shards = [units[k::nproc] for k in range(nproc)]
    procs = []
    for sh in shards:
        env = dict(os.environ, PYTHONHASHSEED=str(hashseed), PYTHONDONTWRITEBYTECODE='1')
        p = subprocess.Popen([PY, '-c', CHILD, pid], stdin=subprocess.PIPE, stdout=subprocess.PIPE,
                             stderr=subprocess.PIPE, env=env)
        p.stdin.write(json.dumps(sh).encode())
        p.stdin.close()
        procs.append(p)
    out = {}
    for p in procs:
        data = p.stdout.read().decode()
        err = p.stderr.read().decode()
        p.wait()
        lines = [l for l in data.splitlines() if l.startswith('DIGESTS ')]
        if p.returncode != 0 or not lines:
            raise RuntimeError('child failed: ' + err[-2000:])
        out.update(json.loads(lines[-1][8:]))
    return out


def main():
    n = int(sys.argv[1]) if len(sys.argv) > 1 else 200
    pids = sys.argv[2:] or sorted(MODES)
    seed = int(os.environ.get('VERIF_SEED', '0') or 0)
    report = {}
    bad = 0
    for pid in pids:
        t = time.time()
        units = []
        for mode in MODES[pid]:
            for i in range(n // len(MODES[pid])):
                units.append(('%s/%d' % (mode, i), unit(pid, mode, i, seed)))
        a = run_config(pid, units, 0, 4, 'forward')
        b = run_config(pid, units, 4242, 8, 'reverse')
        c = run_config(pid, units, 1, 3, 'shuffle')
        diff = sorted(k for k in a if not (a[k] == b.get(k) == c.get(k)))
        report[pid] = {'runs': len(units), 'configurations': 3, 'differing': diff[:20], 'wall_s': round(time.time() - t, 1)}
        bad += len(diff)
        print('%s: %d runs x 3 configurations (hash seeds 0/4242/1, 4/8/3 interpreters, forward/reverse/shuffled): %d differing %s'
              % (pid, len(units), len(diff), diff[:5]))
        sys.stdout.flush()
    os.makedirs(os.path.join(VERIF, 'reports'), exist_ok=True)
    with open(os.path.join(VERIF, 'reports', 'selftest.json'), 'w') as f:
        json.dump(report, f, indent=1)
    return 1 if bad else 0


if __name__ == '__main__':
    sys.exit(main())
