#!/venv/bin/python
"""Fidelity of the process/connection fakes against the real thing (not part of any verdict: real processes and real
time are not deterministic).  Runs the real client against real server subprocesses and checks the behaviours the
simulated Popen/Listener/Connection are assumed to have:
  1. close() makes the server process exit; a later call launches a new one and is answered;
  2. the server exits on its own when the client end of the connection disappears (idle, and while it is busy);
  3. a failing launch (nonexistent interpreter; a child that never listens) makes the first call raise, not hang;
  4. every failing-request kind of C15 is reported with the server's message and leaves the server alive.
usage: tools/realproc.py     exit 0 if the real behaviour matches the assumptions; writes reports/realproc.json"""
import json
import os
import sys
import time

VERIF = os.path.dirname(os.path.dirname(os.path.abspath(__file__)))
REPO = os.environ.get('SUPP_REPO', '/repo')
sys.path.insert(0, REPO)
os.environ['PYTHONPATH'] = REPO + os.pathsep + os.environ.get('PYTHONPATH', '')

import supp.remote as remote   # noqa


def wait_exit(proc, seconds):
    t = time.time()
    while time.time() - t < seconds:
        if proc.poll() is not None:
            return True
        time.sleep(0.05)
    return False


def main():
    out = {}
    ok = True

    def check(name, cond, info=''):
        nonlocal ok
        out[name] = {'ok': bool(cond), 'info': str(info)[:300]}
        print('%-62s %s %s' % (name, 'ok' if cond else 'MISMATCH', info if not cond else ''))
        ok = ok and bool(cond)

    env = remote.Environment()
    check('first call launches a server and is answered', env.eval('return 41 + 1') == 42)
    p1 = env.proc
    env.close()
    check('close(): server process exits within 5 s', wait_exit(p1, 5), p1.poll())
    check('close(): connection forgotten', not hasattr(env, 'conn'))
    check('call after close(): new server, answered', env.eval('return "again"') == 'again' and env.proc is not p1)
    p2 = env.proc
    env.conn.close()          # the client end disappears without a close message
    check('disconnect while idle: server exits within 5 s', wait_exit(p2, 5), p2.poll())
    del env.conn

    env = remote.Environment()
    env.eval('return 1')
    p3 = env.proc
    from supp.umsgpack import dumps
    env.conn.send_bytes(dumps(('eval', ('import time\ntime.sleep(1.0)\nreturn 5',), {})))
    env.conn.close()          # vanish while the server is inside the request
    check('disconnect during a request: server exits within 6 s', wait_exit(p3, 6), p3.poll())

    bad = remote.Environment(executable='/nonexistent/python')
    t = time.time()
    try:
        bad.eval('return 1')
        r = 'returned'
    except Exception as e:
        r = type(e).__name__
    check('nonexistent interpreter: first call raises', r != 'returned', r)
    check('nonexistent interpreter: no hang', time.time() - t < 10)

    slow = remote.Environment(executable='/bin/sleep')   # "server" that never listens: args are (server.py, addr)
    t = time.time()
    try:
        slow.eval('return 1')
        r = 'returned'
    except Exception as e:
        r = str(e)
    took = time.time() - t
    check('child never listens: launch timeout raises after ~5 s', 'timeout' in r and 4 < took < 12, (r, round(took, 1)))

    big = remote.Environment()
    r = big.eval('return "x" * 5000000')
    check('5 MB reply crosses the real connection intact', isinstance(r, str) and len(r) == 5000000)
    big.configure({'sources': ['.']})
    src = 'zq = 1\n' + '# ' + 'p' * (3 * 2 ** 20) + '\nzq.\n'
    r = big.assist(src, (3, 3), 'big.py')
    check('3 MiB request crosses the real connection intact', isinstance(r, list) and 'real' in r[1], str(r)[:80])
    big.close()

    env = remote.Environment()
    env.configure({'sources': ['.']})
    for name, call, expect in [
            ('analyser raises', lambda: env.location('zr = len\n', (1, 6), 'x.py'), None),
            ('unknown method', lambda: env._call('nosuch', 1), "'Server' object has no attribute 'nosuch'"),
            ('wrong arguments', lambda: env._call('lint'), None),
            ('unserialisable result', lambda: env.eval('return {1, 2}'), 'Serialize error'),
            ('unserialisable (surrogate)', lambda: env.eval('return chr(0xd800)'), 'Serialize error'),
            ('eval raises', lambda: env.eval('raise ValueError("boom")'), 'boom')]:
        try:
            call()
            r = None
        except Exception as e:
            r = (type(e), str(e))
        good = r is not None and r[0] is Exception and (expect is None or r[1] == expect)
        check('failing request reported: ' + name, good, r)
        check('server alive and answering after: ' + name, env.eval('return 7') == 7 and env.proc.poll() is None)
    env.close()
    os.makedirs(os.path.join(VERIF, 'reports'), exist_ok=True)
    with open(os.path.join(VERIF, 'reports', 'realproc.json'), 'w') as f:
        json.dump(out, f, indent=1)
    return 0 if ok else 1


if __name__ == '__main__':
    sys.exit(main())
