#!/venv/bin/python
"""Take a breaking change written by an independent sub-agent (patch.diff, demo.py, NOTES.md in its worktree),
confirm in a fresh scratch copy of /repo that (1) the demo passes without the change, (2) the repository's tests
pass with the change, (3) the demo fails with the change, and store it as seeded/<id>/ with meta.json.
usage: tools/seeded_verify.py <id> <property> <worktree> "<what it needs to manifest>" """
import json
import os
import shutil
import subprocess
import sys
import tempfile

VERIF = os.path.dirname(os.path.dirname(os.path.abspath(__file__)))
PY = '/venv/bin/python'


def run(cmd, cwd, env=None, timeout=900):
    p = subprocess.run(cmd, cwd=cwd, env=env, stdout=subprocess.PIPE, stderr=subprocess.STDOUT, timeout=timeout)
    return p.returncode, p.stdout.decode('utf-8', 'replace')


def main():
    sid, prop, wt, needs = sys.argv[1:5]
    dst = os.path.join(VERIF, 'seeded', sid)
    os.makedirs(dst, exist_ok=True)
    for f in ('patch.diff', 'demo.py', 'NOTES.md'):
        shutil.copy(os.path.join(wt, f), os.path.join(dst, f))
    copy = tempfile.mkdtemp(prefix='supp-seed-', dir='/tmp')
    try:
        subprocess.check_call(['rsync', '-a', '--exclude', '.git', '--exclude', '__pycache__', '/repo/', copy + '/'])
        shutil.copy(os.path.join(dst, 'demo.py'), os.path.join(copy, 'demo.py'))
        # demo scripts mention their own worktree path: point them at the copy
        with open(os.path.join(copy, 'demo.py')) as f:
            demo = f.read()
        with open(os.path.join(copy, 'demo.py'), 'w') as f:
            f.write(demo.replace(wt, copy))
        env = dict(os.environ, PYTHONPATH=copy, PYTHONDONTWRITEBYTECODE='1')
        rc0, out0 = run([PY, 'demo.py'], copy, env)
        subprocess.check_call(['git', 'init', '-q'], cwd=copy)
        subprocess.check_call(['git', 'apply', '--whitespace=nowarn', os.path.join(dst, 'patch.diff')], cwd=copy)
        shutil.rmtree(os.path.join(copy, '.git'))
        rct, outt = run([PY, '-m', 'pytest', '-q', '-p', 'no:cacheprovider', '--timeout=600'], copy, env)
        rc1, out1 = run([PY, 'demo.py'], copy, env)
        res = {
            'demo_without_change': {'exit': rc0, 'last_line': (out0.strip().splitlines() or [''])[-1][:300]},
            'tests_with_change': {'exit': rct, 'last_line': (outt.strip().splitlines() or [''])[-1][:300]},
            'demo_with_change': {'exit': rc1, 'last_line': (out1.strip().splitlines() or [''])[-1][:300]},
        }
        ok = rc0 == 0 and rct == 0 and rc1 != 0
        meta = {'id': sid, 'property': prop, 'needs_to_manifest': needs, 'confirmed': ok, 'confirmation': res,
                'what_was_run': ['demo.py on a scratch copy of /repo HEAD', 'git apply patch.diff', 'pytest (whole suite)',
                                 'demo.py again'],
                'repo_head': subprocess.check_output(['git', '-C', '/repo', 'log', '--format=%h', '-1']).decode().strip()}
        mp = os.path.join(dst, 'meta.json')
        if os.path.exists(mp):
            with open(mp) as f:
                old = json.load(f)
            for k in ('detected_by', 'detection'):
                if k in old:
                    meta[k] = old[k]
        with open(mp, 'w') as f:
            json.dump(meta, f, indent=1)
        print(sid, 'confirmed' if ok else 'NOT CONFIRMED', json.dumps(res))
        return 0 if ok else 1
    finally:
        for pid in os.listdir('/proc'):
            if pid.isdigit() and int(pid) != os.getpid():
                try:
                    with open('/proc/%s/cmdline' % pid, 'rb') as f:
                        if copy.encode() in f.read():
                            os.kill(int(pid), 9)
                except OSError:
                    pass
        shutil.rmtree(copy, ignore_errors=True)


if __name__ == '__main__':
    sys.exit(main())
