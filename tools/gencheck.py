#!/venv/bin/python
"""Validity check of the generators: every generated project must really import under CPython, every generated
flow program must compile.  usage: tools/gencheck.py [n]"""
import os, sys, subprocess, tempfile, shutil, json
sys.path.insert(0, os.path.dirname(os.path.dirname(os.path.abspath(__file__))))
from sim import prng
from gen import project

def main():
    n = int(sys.argv[1]) if len(sys.argv) > 1 else 200
    bad = 0
    for i in range(n):
        rng = prng.rng('gencheck', i)
        spec = project.gen_project(rng)
        for step in range(3):
            root = tempfile.mkdtemp(prefix='gencheck-', dir='/tmp')
            try:
                project.write_project(root, spec)
                names = [m['name'] for m in spec['modules']]
                code = 'import importlib\n' + ''.join('importlib.import_module(%r)\n' % nm for nm in names)
                p = subprocess.run([sys.executable, '-c', code], cwd=root, stdout=subprocess.PIPE, stderr=subprocess.STDOUT,
                                   env=dict(os.environ, PYTHONPATH=root, PYTHONDONTWRITEBYTECODE='1'))
                if p.returncode != 0:
                    bad += 1
                    print('project', i, 'step', step, 'does not import:', p.stdout.decode()[-600:])
                for j in range(5):
                    r = project.gen_request(rng, spec, uid='u%d' % j)
                    src = r['source']
                    if r['position']:
                        ln, col = r['position']
                        lines = src.split('\n')
                        assert 1 <= ln <= len(lines) and 0 <= col <= len(lines[ln - 1]), r
            finally:
                shutil.rmtree(root, ignore_errors=True)
            idx = rng.randrange(len(spec['modules']))
            spec['modules'][idx] = project.mutate_module(rng, spec, idx)
    print('checked', n, 'projects x3 versions; invalid:', bad)
    return 1 if bad else 0

if __name__ == '__main__':
    sys.exit(main())
