#!/venv/bin/python
"""Stub fidelity: the same scripted (non-blocking) sequences of send/recv/poll/close are applied to the simulator's
FakeConn pair and to a real multiprocessing connection pair (Listener/Client over AF_UNIX, as supp uses it); values
and exception classes must agree.  Also checks what Client does when nobody listens.
usage: tools/stubfidelity.py [nscripts]"""
import os
import sys
import random
import tempfile

VERIF = os.path.dirname(os.path.dirname(os.path.abspath(__file__)))
sys.path.insert(0, VERIF)
sys.path.insert(0, os.environ.get('SUPP_REPO', '/repo'))

from multiprocessing.connection import Listener, Client   # noqa
from sim.kernel import Kernel, Scheduler                  # noqa
from sim.fakes import World, conn_pair                    # noqa


def real_pair():
    d = tempfile.mkdtemp(prefix='stubfid-')
    addr = os.path.join(d, 'sock')
    l = Listener(addr)
    c = Client(addr)
    s = l.accept()
    l.close()
    return c, s, d


def apply(ends, script):
    """ends: {'c': conn, 's': conn}; returns list of outcomes"""
    out = []
    for who, op, arg in script:
        conn = ends[who]
        try:
            if op == 'send':
                conn.send_bytes(arg)
                out.append('ok')
            elif op == 'poll':
                out.append(bool(conn.poll(0)))
            elif op == 'recv':
                out.append(conn.recv_bytes())
            elif op == 'close':
                conn.close()
                out.append('ok')
            elif op == 'closed':
                out.append(bool(conn.closed))
        except Exception as e:
            # EOFError / BrokenPipeError / OSError("handle is closed")
            name = type(e).__name__
            if name == 'ConnectionResetError':
                name = 'EOFError'    # the real class reports a reset as end of data in recv_bytes on some kernels
            out.append('raise ' + name)
    return out


def gen_script(r):
    """Only operations that cannot block: recv only when the model says a message or EOF is available."""
    state = {'c': {'inbox': 0, 'closed': False}, 's': {'inbox': 0, 'closed': False}}
    other = {'c': 's', 's': 'c'}
    script = []
    for _ in range(r.randrange(3, 25)):
        who = r.choice('cs')
        me, peer = state[who], state[other[who]]
        ops = ['poll', 'closed']
        if not me['closed']:
            ops += ['send', 'send']
            if me['inbox'] or peer['closed']:
                ops += ['recv', 'recv']
            if r.random() < 0.15:
                ops.append('close')
        else:
            ops += ['send', 'recv', 'close']      # all must fail the same way (close is idempotent)
        op = r.choice(ops)
        arg = None
        if op == 'send':
            arg = bytes(r.getrandbits(8) for _ in range(r.choice((0, 1, 5, 300, 3000))))     # never fills the socket buffer
            if not me['closed'] and not peer['closed']:
                peer['inbox'] += 1
        elif op == 'recv':
            if not me['closed'] and me['inbox']:
                me['inbox'] -= 1
        elif op == 'close':
            me['closed'] = True
        script.append((who, op, arg))
    return script


def main():
    n = int(sys.argv[1]) if len(sys.argv) > 1 else 400
    bad = 0
    for i in range(n):
        r = random.Random(i)
        script = gen_script(r)
        c, s, d = real_pair()
        try:
            real = apply({'c': c, 's': s}, script)
        finally:
            for x in (c, s):
                try:
                    x.close()
                except Exception:
                    pass
            try:
                os.unlink(os.path.join(d, 'sock'))
            except OSError:
                pass
            os.rmdir(d)
        w = World(Kernel(Scheduler()), '/repo')
        fc, fs = conn_pair(w, 1)
        fake = apply({'c': fc, 's': fs}, script)
        if real != fake:
            bad += 1
            if bad <= 5:
                k = next(j for j, (a, b) in enumerate(zip(real, fake)) if a != b)
                print('script %d differs at step %d %r: real %r, fake %r' % (
                    i, k, script[k][:2], str(real[k])[:60], str(fake[k])[:60]))
    # connecting when nobody listens
    d = tempfile.mkdtemp(prefix='stubfid-')
    try:
        try:
            Client(os.path.join(d, 'nobody'))
            real = 'connected'
        except Exception as e:
            real = type(e).__name__
        w = World(Kernel(Scheduler()), '/repo')
        try:
            w.Client('/sim/AF_UNIX/nobody')
            fake = 'connected'
        except Exception as e:
            fake = type(e).__name__
        if real != fake:
            bad += 1
            print('Client without listener: real %s, fake %s' % (real, fake))
    finally:
        os.rmdir(d)
    print('stub fidelity: %d scripts, %d disagreements' % (n, bad))
    return 1 if bad else 0


if __name__ == '__main__':
    sys.exit(main())
