"""Generator of single-module Python programs rich in control flow (for C04 and C17).

A program is a JSON-able tree of statements (so that deleting any statement is a valid edit for the
minimiser); render() turns it into text.  Programs always compile; they are analysed, never executed."""
import ast

VARS = ['a', 'b', 'c', 'd', 'x', 'y']
FUNCS = ['f', 'g']
CLASSES = ['K', 'L']
MODS = ['os', 'sys', 'json', 'os.path']


def gen_flat(rng):
    """A long straight-line flow (70-160 bindings without any branch), rebinding a few names over and over, with a
    class or two so that which binding a read sees is observable: thresholds on the number of names in one flow,
    incremental tables and the like only show on code of this shape."""
    n = rng.choice((70, 90, 130, 160))
    names = ['h', 'k', 'm']
    body = [['class', 'KA', [], [['assign', 'attr', "'KA'"], ['assign', 'only_a', '1']]],
            ['class', 'KB', [], [['assign', 'attr', "'KB'"], ['assign', 'only_b', '1']]]]
    for i in range(n):
        x = rng.random()
        if x < 0.12:
            body.append(['assign', rng.choice(names), rng.choice(('KA()', 'KB()', 'KA', 'KB', '%d' % i))])
        elif x < 0.2:
            body.append(['assign', 'r%d' % i, rng.choice(names)])
        elif x < 0.25:
            body.append(['expr', 'print(%s.attr)' % rng.choice(names)])
        else:
            body.append(['assign', 'f%d' % i, '%d' % i])
    body.append(['expr', 'print(%s)' % ', '.join(names)])
    if rng.random() < 0.5:
        return {'profile': 'flat', 'body': [['def', 'flat', [], body + [['return', rng.choice(names)]]]]}
    return {'profile': 'flat', 'body': body}


def gen_program(rng, profile='loops', size=None):
    if profile == 'flat':
        return gen_flat(rng)
    size = size or rng.choice((6, 10, 16, 24, 40))
    for _ in range(8):
        g = _Gen(rng, profile, size)
        prog = {'profile': profile, 'body': g.block(0, False, False, top=True)}
        if compiles(render(prog)):
            return prog
    return {'profile': profile, 'body': [['assign', 'a', '1'], ['expr', 'print(a)']]}


class _Gen(object):
    def __init__(self, rng, profile, size):
        self.r = rng
        self.profile = profile
        self.budget = size
        self.names = list(VARS[:rng.choice((3, 4, 6))])

    def var(self):
        return self.r.choice(self.names)

    def expr(self, n=None):
        r = self.r
        n = n if n is not None else r.choice((0, 1, 1, 2, 3))
        if n == 0:
            # (equal values of different types on purpose: 1 == 1.0 == True, 0 == 0.0 == False, '' vs b'')
            return r.choice(('0', '1', "'s'", 'None', '[]', '1', '1.0', 'True', '0.0', 'False', "b's'", '1j', '()'))
        parts = [self.var() for _ in range(n)]
        x = r.random()
        if x < 0.5:
            return ' + '.join(parts)
        if x < 0.7:
            return '%s(%s)' % (r.choice(FUNCS + ['len', 'print']), ', '.join(parts))
        if x < 0.8:
            return '[%s]' % ', '.join(parts)
        if x < 0.9:
            return '%s.attr' % parts[0]
        return '(%s, %s)' % (parts[0], self.expr(1))

    def block(self, depth, in_loop, in_func, top=False, n=None):
        r = self.r
        n = n or r.choice((1, 2, 2, 3, 4) if not top else (3, 4, 6, 8))
        out = []
        for _ in range(n):
            if self.budget <= 0:
                break
            out.append(self.stmt(depth, in_loop, in_func))
        if not out:
            out.append(['expr', self.expr(1)])
        return out

    def stmt(self, depth, in_loop, in_func):
        r = self.r
        self.budget -= 1
        deep = depth >= 4
        x = r.random()
        p = self.profile
        if p == 'loops':
            w_loop, w_if, w_try, w_multi = 0.22, 0.18, 0.07, 0.03
        elif p == 'multi':
            w_loop, w_if, w_try, w_multi = 0.08, 0.10, 0.05, 0.30
        else:
            w_loop, w_if, w_try, w_multi = 0.15, 0.15, 0.08, 0.10
        if deep:
            w_loop = w_if = w_try = w_multi = 0.0
        t = 0.0
        t += w_loop
        if x < t:
            if r.random() < 0.6:
                tgt = self.var() if r.random() < 0.8 else '%s, %s' % (self.var(), self.var())
                return ['for', tgt, self.expr(1), self.block(depth + 1, True, in_func),
                        self.block(depth + 1, in_loop, in_func, n=1) if r.random() < 0.25 else None]
            return ['while', self.expr(1), self.block(depth + 1, True, in_func),
                    self.block(depth + 1, in_loop, in_func, n=1) if r.random() < 0.25 else None]
        t += w_if
        if x < t:
            elifs = [[self.expr(1), self.block(depth + 1, in_loop, in_func, n=r.choice((1, 2)))]
                     for _ in range(r.choice((0, 0, 1, 2)))]
            return ['if', self.expr(1), self.block(depth + 1, in_loop, in_func), elifs,
                    self.block(depth + 1, in_loop, in_func, n=r.choice((1, 2))) if r.random() < 0.5 else None]
        t += w_try
        if x < t:
            handlers = [[r.choice(('ValueError', 'Exception', None)), r.choice((None, 'e', self.var())),
                         self.block(depth + 1, in_loop, in_func, n=1)] for _ in range(r.choice((1, 1, 2)))]
            for h in handlers:
                if h[0] is None:
                    h[1] = None
            # a bare except must be last
            handlers.sort(key=lambda h: h[0] is None)
            if sum(1 for h in handlers if h[0] is None) > 1:
                handlers = handlers[:1]
            return ['try', self.block(depth + 1, in_loop, in_func), handlers,
                    self.block(depth + 1, in_loop, in_func, n=1) if r.random() < 0.3 else None,
                    self.block(depth + 1, in_loop, in_func, n=1) if r.random() < 0.3 else None]
        t += w_multi
        if x < t:
            return self.multi(depth, in_loop, in_func)
        y = r.random()
        if y < 0.40:
            return ['assign', self.var(), self.expr()]
        if y < 0.52:
            return ['expr', self.expr(r.choice((1, 2, 3)))]
        if y < 0.56:
            return ['aug', self.var(), self.expr(1)]
        if y < 0.62 and not deep:
            name = r.choice(FUNCS)
            params = r.sample(self.names, r.choice((0, 1, 2)))
            body = self.block(depth + 1, False, True)
            free = [v for v in self.names if v not in params]
            if free and r.random() < 0.15:
                body.insert(0, ['global', r.choice(free)])
            return ['def', name, params, body]
        if y < 0.66 and not deep:
            return ['class', r.choice(CLASSES), [r.choice(CLASSES + ['object'])] if r.random() < 0.3 else [],
                    self.block(depth + 1, False, False, n=r.choice((1, 2)))]
        if y < 0.70:
            m = r.choice(MODS)
            return ['import', m, r.choice((None, None, self.var()))]
        if y < 0.73:
            return ['from', 'os', r.choice(('path', 'sep', 'getcwd')), r.choice((None, self.var()))]
        if y < 0.78:
            kind = r.choice(('list', 'set', 'gen', 'dict'))
            v = self.var()
            return ['comp', self.var(), kind, self.expr(r.choice((1, 2))),
                    [[v, self.expr(1), [self.expr(1)] if r.random() < 0.4 else []]]]
        if y < 0.81:
            return ['with', self.expr(1), r.choice((None, self.var())), self.block(depth + 1, in_loop, in_func, n=r.choice((1, 2)))]
        if y < 0.83:
            return ['lambda', self.var(), r.sample(self.names, r.choice((0, 1))), self.expr(2)]
        if y < 0.85:
            return ['walrus', self.var(), self.expr(1), self.block(depth + 1, in_loop, in_func, n=1)]
        if y < 0.90 and in_loop:
            return [r.choice(('break', 'continue'))]
        if y < 0.94 and in_func:
            return ['return', self.expr(1) if r.random() < 0.8 else None]
        if y < 0.96:
            return ['raise']
        return ['assign', '%s, %s' % (self.var(), self.var()), '%s, %s' % (self.expr(1), self.expr(0))]

    def binding(self, name, depth, in_loop, in_func, j):
        """One way of binding `name` (mixed kinds)."""
        r = self.r
        k = r.randrange(9)
        if k <= 2:
            return ['assign', name, r.choice(('%d' % j, "'s%d'" % j, self.expr(1)))]
        if k == 3:
            return ['import', r.choice(MODS), name]
        if k == 4:
            return ['from', 'os', r.choice(('path', 'sep')), name]
        if k == 5:
            return ['def', name, [], [['return', '%d' % j]]]
        if k == 6:
            return ['class', name, [], [['assign', 'attr%d' % j, '%d' % j]]]
        if k == 7:
            return ['for', name, self.expr(1), [['expr', self.expr(1)]], None]
        return ['with', self.expr(1), name, [['expr', self.expr(1)]]]

    def multi(self, depth, in_loop, in_func):
        """A name bound in 2-13 alternative branches, read afterwards."""
        r = self.r
        name = self.var()
        n = r.choice((2, 3, 3, 4, 5, 6, 6, 9, 10, 13))       # (wide joins: 8 and more alternatives)
        shape = r.choice(('ifchain', 'ifchain', 'try', 'nested', 'instances', 'instances', 'swap'))
        if n >= 8:
            shape = r.choice(('try', 'try', 'ifchain'))
        if shape == 'swap':
            # loop-carried mutual assignment of two names (an evaluation cycle), one of them also rebound in a branch
            other = r.choice([v for v in self.names if v != name] or [name + '2'])
            cls = ['KA', 'KB', 'KC']
            defs = [['class', c, [], [['assign', 'attr', "'%s'" % c], ['assign', 'only_' + c, '1']]] for c in cls]
            body = [['assign', name, other],
                    ['if', self.expr(1), [['assign', other, 'KC()']], [], None],
                    ['assign', other, name]]
            if r.random() < 0.5:
                body.insert(1, ['expr', 'print(%s.attr)' % name])
            loop = ['while', self.expr(1), body, None] if r.random() < 0.5 else ['for', 'zi', self.expr(1), body, None]
            self.budget -= n
            return ['seq', defs + [['assign', name, 'KA()'], ['assign', other, 'KB()'], loop,
                                   ['expr', 'print(%s.attr, %s.attr)' % (name, other)],
                                   ['assign', self.var(), other]]]
        if shape == 'instances':
            # alternatives are instances (or the classes themselves) of classes that share attribute names
            cls = ['KA', 'KB', 'KC'][:r.choice((2, 3))]
            defs = [['class', c, [], [['assign', 'attr', "'%s'" % c], ['assign', 'Attr', "'%s'" % c],
                                      ['def', 'meth', ['self'], [['return', "'%s'" % c]]],
                                      ['def', 'Meth', ['self'], [['return', "'%s'" % c]]]]]
                    for c in cls]
            call = '()' if r.random() < 0.7 else ''
            branches = [[['assign', name, c + call]] for c in cls]
            st = ['if', self.expr(1), branches[0], [[self.expr(1), b] for b in branches[1:-1]], branches[-1]]
            self.budget -= n
            tail = [st, ['expr', 'print(%s.attr, %s.meth)' % (name, name)], ['assign', self.var(), name + '.attr']]
            if r.random() < 0.6:
                # a second name whose alternatives are the first (itself multiply bound) and one more instance
                other = r.choice([v for v in self.names if v != name] or [name + '2'])
                extra = 'KZ'
                defs.append(['class', extra, [], [['assign', 'attr', "'KZ'"], ['def', 'meth', ['self'], [['return', "'KZ'"]]]]])
                branches2 = [[['assign', other, name]], [['assign', other, extra + call]]]
                if r.random() < 0.5:
                    branches2.reverse()
                tail += [['if', self.expr(1), branches2[0], [], branches2[1]],
                         ['expr', 'print(%s.attr, %s.meth)' % (other, other)]]
            return ['seq', defs + tail]
        if shape == 'ifchain':
            branches = [[self.binding(name, depth, in_loop, in_func, j)] for j in range(n)]
            has_else = r.random() < 0.6
            elifs = [[self.expr(1), b] for b in branches[1:(n - 1 if has_else else n)]]
            st = ['if', self.expr(1), branches[0], elifs, branches[-1] if has_else and n > 1 else None]
        elif shape == 'try':
            hs = [[r.choice(('ValueError', 'KeyError', 'OSError')), None, [self.binding(name, depth, in_loop, in_func, j)]]
                  for j in range(1, max(2, n - 1))]
            st = ['try', [self.binding(name, depth, in_loop, in_func, 0)], hs,
                  [self.binding(name, depth, in_loop, in_func, n)] if r.random() < (0.4 if n < 8 else 0.8) else None, None]
        else:
            inner = ['if', self.expr(1), [self.binding(name, depth, in_loop, in_func, 0)], [],
                     [self.binding(name, depth, in_loop, in_func, 1)]]
            st = ['if', self.expr(1), [inner], [[self.expr(1), [self.binding(name, depth, in_loop, in_func, 2)]]],
                  [self.binding(name, depth, in_loop, in_func, 3)] if r.random() < 0.7 else None]
        self.budget -= n
        return ['seq', [st, ['expr', 'print(%s)' % name]] + ([['assign', self.var(), name]] if r.random() < 0.5 else [])]


# ---------------------------------------------------------------- rendering

def render(prog):
    out = []
    _block(prog['body'], 0, out)
    return '\n'.join(out) + '\n'


def _block(stmts, ind, out):
    n0 = len(out)
    for s in stmts:
        _stmt(s, ind, out)
    if len(out) == n0:
        out.append(' ' * ind + 'pass')


def _stmt(s, ind, out):
    p = ' ' * ind
    k = s[0]
    if k == 'seq':
        for x in s[1]:
            _stmt(x, ind, out)
    elif k == 'assign':
        out.append('%s%s = %s' % (p, s[1], s[2]))
    elif k == 'aug':
        out.append('%s%s += %s' % (p, s[1], s[2]))
    elif k == 'expr':
        out.append(p + s[1])
    elif k == 'if':
        out.append('%sif %s:' % (p, s[1]))
        _block(s[2], ind + 4, out)
        for test, body in s[3]:
            out.append('%selif %s:' % (p, test))
            _block(body, ind + 4, out)
        if s[4] is not None:
            out.append(p + 'else:')
            _block(s[4], ind + 4, out)
    elif k == 'for':
        out.append('%sfor %s in %s:' % (p, s[1], s[2]))
        _block(s[3], ind + 4, out)
        if s[4] is not None:
            out.append(p + 'else:')
            _block(s[4], ind + 4, out)
    elif k == 'while':
        out.append('%swhile %s:' % (p, s[1]))
        _block(s[2], ind + 4, out)
        if s[3] is not None:
            out.append(p + 'else:')
            _block(s[3], ind + 4, out)
    elif k == 'try':
        out.append(p + 'try:')
        _block(s[1], ind + 4, out)
        handlers = s[2]
        if not handlers and s[4] is None:
            handlers = [[None, None, []]]
        for exc, asname, body in handlers:
            if exc is None:
                out.append(p + 'except:')
            elif asname:
                out.append('%sexcept %s as %s:' % (p, exc, asname))
            else:
                out.append('%sexcept %s:' % (p, exc))
            _block(body, ind + 4, out)
        if s[3] is not None and handlers:
            out.append(p + 'else:')
            _block(s[3], ind + 4, out)
        if s[4] is not None:
            out.append(p + 'finally:')
            _block(s[4], ind + 4, out)
    elif k == 'with':
        out.append('%swith %s%s:' % (p, s[1], (' as ' + s[2]) if s[2] else ''))
        _block(s[3], ind + 4, out)
    elif k == 'def':
        out.append('%sdef %s(%s):' % (p, s[1], ', '.join(s[2])))
        _block(_valid_in_func(s[3]), ind + 4, out)
    elif k == 'class':
        out.append('%sclass %s%s:' % (p, s[1], ('(%s)' % ', '.join(s[2])) if s[2] else ''))
        _block(s[3], ind + 4, out)
    elif k == 'import':
        out.append('%simport %s%s' % (p, s[1], (' as ' + s[2]) if s[2] else ''))
    elif k == 'from':
        out.append('%sfrom %s import %s%s' % (p, s[1], s[2], (' as ' + s[3]) if s[3] else ''))
    elif k == 'comp':
        gens = ' '.join('for %s in %s%s' % (v, it, ''.join(' if ' + c for c in ifs)) for v, it, ifs in s[4])
        if s[2] == 'list':
            e = '[%s %s]' % (s[3], gens)
        elif s[2] == 'set':
            e = '{%s %s}' % (s[3], gens)
        elif s[2] == 'gen':
            e = 'list(%s %s)' % (s[3], gens)
        else:
            e = '{%s: %s %s}' % (s[3], s[3], gens)
        out.append('%s%s = %s' % (p, s[1], e))
    elif k == 'lambda':
        out.append('%s%s = lambda %s: %s' % (p, s[1], ', '.join(s[2]), s[3]))
    elif k == 'walrus':
        out.append('%sif (%s := %s):' % (p, s[1], s[2]))
        _block(s[3], ind + 4, out)
    elif k in ('break', 'continue', 'raise', 'pass'):
        out.append(p + k)
    elif k == 'return':
        out.append(p + ('return %s' % s[1] if s[1] is not None else 'return'))
    elif k == 'global':
        out.append('%sglobal %s' % (p, s[1]))
    else:
        raise ValueError(s)


def _valid_in_func(body):
    return body


def compiles(text):
    try:
        compile(text, '<gen>', 'exec')
        return True
    except SyntaxError:
        return False


def attr_reads(text):
    """Attribute reads on plain names (x.attr in Load context) as (line, col of the end of attr, name, attr)."""
    tree = ast.parse(text)
    out = []
    for node in ast.walk(tree):
        if isinstance(node, ast.Attribute) and isinstance(node.ctx, ast.Load) and isinstance(node.value, ast.Name) \
                and node.end_lineno == node.lineno:
            out.append((node.lineno, node.end_col_offset, node.value.id, node.attr))
    out.sort()
    return out


def reads(text):
    """All identifier reads (Name nodes in Load context) as (line, col, id), in source order."""
    tree = ast.parse(text)
    out = []
    for node in ast.walk(tree):
        if isinstance(node, ast.Name) and isinstance(node.ctx, ast.Load):
            out.append((node.lineno, node.col_offset, node.id))
    out.sort()
    return out
