"""Reference MessagePack codec written from the specification text
(https://github.com/msgpack/msgpack/blob/master/spec.md), sharing no code with supp/umsgpack.py.

Values of the model:  None, bool, int, float, str, bytes, list, dict, RExt(type, data).
The encoder can choose any *legal* format for a value through `choose(options)`; options[0] is
always the smallest format.  The decoder is strict: it raises Truncated when the data ends
inside an object, Invalid for the never-used byte 0xc1 and for strings that are not UTF-8."""
import struct


class RExt(object):
    __slots__ = ('type', 'data')

    def __init__(self, type, data):
        self.type = type
        self.data = data

    def __repr__(self):
        return 'RExt(%d, %r)' % (self.type, self.data if len(self.data) < 24 else (self.data[:8], len(self.data)))


class Truncated(Exception):
    """Data ended inside an object.  .fmt = first byte of the innermost object being read (or None when
    no byte was available), .phase in code/len/exttype/body/elems."""
    def __init__(self, fmt, phase):
        Exception.__init__(self, fmt, phase)
        self.fmt = fmt
        self.phase = phase


class Invalid(Exception):
    pass


def first(options):
    return options[0]


# ---------------------------------------------------------------- encoder

def encode(v, choose=first, out=None):
    top = out is None
    if top:
        out = bytearray()
    if v is None:
        out.append(0xc0)
    elif v is True:
        out.append(0xc3)
    elif v is False:
        out.append(0xc2)
    elif isinstance(v, int):
        _enc_int(v, choose, out)
    elif isinstance(v, float):
        opts = ['f64']
        try:
            if struct.unpack('>f', struct.pack('>f', v))[0] == v and \
                    struct.pack('>d', struct.unpack('>f', struct.pack('>f', v))[0]) == struct.pack('>d', v):
                opts.append('f32')
        except (OverflowError, struct.error):
            pass
        if choose(opts) == 'f32':
            out.append(0xca)
            out += struct.pack('>f', v)
        else:
            out.append(0xcb)
            out += struct.pack('>d', v)
    elif isinstance(v, str):
        b = v.encode('utf-8')
        n = len(b)
        opts = []
        if n <= 31:
            opts.append('fix')
        if n <= 0xff:
            opts.append('8')
        if n <= 0xffff:
            opts.append('16')
        opts.append('32')
        o = choose(opts)
        if o == 'fix':
            out.append(0xa0 | n)
        elif o == '8':
            out += bytes((0xd9, n))
        elif o == '16':
            out.append(0xda)
            out += struct.pack('>H', n)
        else:
            out.append(0xdb)
            out += struct.pack('>I', n)
        out += b
    elif isinstance(v, (bytes, bytearray)):
        n = len(v)
        opts = []
        if n <= 0xff:
            opts.append('8')
        if n <= 0xffff:
            opts.append('16')
        opts.append('32')
        o = choose(opts)
        if o == '8':
            out += bytes((0xc4, n))
        elif o == '16':
            out.append(0xc5)
            out += struct.pack('>H', n)
        else:
            out.append(0xc6)
            out += struct.pack('>I', n)
        out += v
    elif isinstance(v, (list, tuple)):     # (a tuple only occurs as a map key: an array in key position)
        n = len(v)
        opts = []
        if n <= 15:
            opts.append('fix')
        if n <= 0xffff:
            opts.append('16')
        opts.append('32')
        o = choose(opts)
        if o == 'fix':
            out.append(0x90 | n)
        elif o == '16':
            out.append(0xdc)
            out += struct.pack('>H', n)
        else:
            out.append(0xdd)
            out += struct.pack('>I', n)
        for e in v:
            encode(e, choose, out)
    elif isinstance(v, dict):
        n = len(v)
        opts = []
        if n <= 15:
            opts.append('fix')
        if n <= 0xffff:
            opts.append('16')
        opts.append('32')
        o = choose(opts)
        if o == 'fix':
            out.append(0x80 | n)
        elif o == '16':
            out.append(0xde)
            out += struct.pack('>H', n)
        else:
            out.append(0xdf)
            out += struct.pack('>I', n)
        for k, e in v.items():
            encode(k, choose, out)
            encode(e, choose, out)
    elif isinstance(v, RExt):
        n = len(v.data)
        opts = []
        if n in (1, 2, 4, 8, 16):
            opts.append('fix')
        if n <= 0xff:
            opts.append('8')
        if n <= 0xffff:
            opts.append('16')
        opts.append('32')
        o = choose(opts)
        t = struct.pack('b', v.type)
        if o == 'fix':
            out.append({1: 0xd4, 2: 0xd5, 4: 0xd6, 8: 0xd7, 16: 0xd8}[n])
        elif o == '8':
            out += bytes((0xc7, n))
        elif o == '16':
            out.append(0xc8)
            out += struct.pack('>H', n)
        else:
            out.append(0xc9)
            out += struct.pack('>I', n)
        out += t
        out += v.data
    else:
        raise TypeError('not a model value: %r' % type(v))
    if top:
        return bytes(out)


def _enc_int(v, choose, out):
    if not (-2 ** 63 <= v < 2 ** 64):
        raise OverflowError(v)
    opts = []
    if 0 <= v <= 0x7f:
        opts.append('pfix')
    if -32 <= v < 0:
        opts.append('nfix')
    # unsigned family
    if v >= 0:
        for name, bits in (('u8', 8), ('u16', 16), ('u32', 32), ('u64', 64)):
            if v < 2 ** bits:
                opts.append(name)
    # signed family
    for name, bits in (('i8', 8), ('i16', 16), ('i32', 32), ('i64', 64)):
        if -2 ** (bits - 1) <= v < 2 ** (bits - 1):
            opts.append(name)
    if v < 0:
        # smallest-first ordering for negative numbers is nfix, i8, i16 ... already so
        pass
    else:
        # for non-negative numbers smallest-first is pfix,u8,u16,u32,u64 then the signed ones
        pass
    o = choose(opts)
    if o == 'pfix':
        out.append(v)
    elif o == 'nfix':
        out.append(v & 0xff)
    else:
        code, fmt = {
            'u8': (0xcc, '>B'), 'u16': (0xcd, '>H'), 'u32': (0xce, '>I'), 'u64': (0xcf, '>Q'),
            'i8': (0xd0, '>b'), 'i16': (0xd1, '>h'), 'i32': (0xd2, '>i'), 'i64': (0xd3, '>q'),
        }[o]
        out.append(code)
        out += struct.pack(fmt, v)


# ---------------------------------------------------------------- decoder

def decode(data):
    """Decode exactly one object from the start of `data`; return (value, bytes consumed)."""
    return _dec(memoryview(data), 0)


def decode_all(data):
    v, n = decode(data)
    if n != len(data):
        raise Invalid('trailing bytes: consumed %d of %d' % (n, len(data)))
    return v


def _need(mv, pos, n, fmt, phase):
    if pos + n > len(mv):
        raise Truncated(fmt, phase)
    return mv[pos:pos + n]


def _dec(mv, pos):
    if pos >= len(mv):
        raise Truncated(None, 'code')
    c = mv[pos]
    pos += 1
    if c <= 0x7f:
        return c, pos
    if c >= 0xe0:
        return c - 0x100, pos
    if 0x80 <= c <= 0x8f:
        return _dec_map(mv, pos, c & 0x0f, c)
    if 0x90 <= c <= 0x9f:
        return _dec_arr(mv, pos, c & 0x0f, c)
    if 0xa0 <= c <= 0xbf:
        return _dec_str(mv, pos, c & 0x1f, c)
    if c == 0xc0:
        return None, pos
    if c == 0xc1:
        raise Invalid('0xc1 is never used')
    if c == 0xc2:
        return False, pos
    if c == 0xc3:
        return True, pos
    if c in (0xc4, 0xc5, 0xc6):
        w = {0xc4: 1, 0xc5: 2, 0xc6: 4}[c]
        n = int.from_bytes(_need(mv, pos, w, c, 'len'), 'big')
        pos += w
        return bytes(_need(mv, pos, n, c, 'body')), pos + n
    if c in (0xc7, 0xc8, 0xc9):
        w = {0xc7: 1, 0xc8: 2, 0xc9: 4}[c]
        n = int.from_bytes(_need(mv, pos, w, c, 'len'), 'big')
        pos += w
        t = struct.unpack('b', _need(mv, pos, 1, c, 'exttype'))[0]
        pos += 1
        return RExt(t, bytes(_need(mv, pos, n, c, 'body'))), pos + n
    if c == 0xca:
        return struct.unpack('>f', _need(mv, pos, 4, c, 'body'))[0], pos + 4
    if c == 0xcb:
        return struct.unpack('>d', _need(mv, pos, 8, c, 'body'))[0], pos + 8
    if 0xcc <= c <= 0xcf:
        w = 1 << (c - 0xcc)
        return int.from_bytes(_need(mv, pos, w, c, 'body'), 'big', signed=False), pos + w
    if 0xd0 <= c <= 0xd3:
        w = 1 << (c - 0xd0)
        return int.from_bytes(_need(mv, pos, w, c, 'body'), 'big', signed=True), pos + w
    if 0xd4 <= c <= 0xd8:
        n = 1 << (c - 0xd4)
        t = struct.unpack('b', _need(mv, pos, 1, c, 'exttype'))[0]
        pos += 1
        return RExt(t, bytes(_need(mv, pos, n, c, 'body'))), pos + n
    if c in (0xd9, 0xda, 0xdb):
        w = {0xd9: 1, 0xda: 2, 0xdb: 4}[c]
        n = int.from_bytes(_need(mv, pos, w, c, 'len'), 'big')
        return _dec_str(mv, pos + w, n, c)
    if c in (0xdc, 0xdd):
        w = 2 if c == 0xdc else 4
        n = int.from_bytes(_need(mv, pos, w, c, 'len'), 'big')
        return _dec_arr(mv, pos + w, n, c)
    if c in (0xde, 0xdf):
        w = 2 if c == 0xde else 4
        n = int.from_bytes(_need(mv, pos, w, c, 'len'), 'big')
        return _dec_map(mv, pos + w, n, c)
    raise AssertionError('unreachable: 0x%02x' % c)


def _dec_str(mv, pos, n, c):
    b = bytes(_need(mv, pos, n, c, 'body'))
    try:
        return b.decode('utf-8'), pos + n
    except UnicodeDecodeError:
        raise Invalid('string is not UTF-8')


def _dec_arr(mv, pos, n, c):
    out = []
    for _ in range(n):
        try:
            v, pos = _dec(mv, pos)
        except Truncated as e:
            if e.fmt is None:
                raise Truncated(c, 'elems')
            raise
        out.append(v)
    return out, pos


def _dec_map(mv, pos, n, c):
    out = {}
    for _ in range(n):
        try:
            k, pos = _dec(mv, pos)
            v, pos = _dec(mv, pos)
        except Truncated as e:
            if e.fmt is None:
                raise Truncated(c, 'elems')
            raise
        if isinstance(k, list):
            k = _tup(k)
        try:
            out[_Key(k)] = v
        except TypeError:
            raise Invalid('map key cannot be represented as a Python dict key')
    return {k.v: v for k, v in out.items()}, pos


def _tup(k):
    return tuple(_tup(x) for x in k) if isinstance(k, list) else k


class _Key(object):
    """dict key wrapper that keeps 1, True and 1.0 apart while decoding"""
    __slots__ = ('v',)

    def __init__(self, v):
        self.v = v

    def __hash__(self):
        return hash((type(self.v).__name__, self.v))

    def __eq__(self, o):
        return type(self.v) is type(o.v) and self.v == o.v


def annotate(data):
    """For every k in 0..len(data)-1: (fmt, phase) of the Truncated error that decode(data[:k]) raises,
    computed in one pass (decode(data) must succeed)."""
    mv = memoryview(data)
    out = [None] * len(mv)
    _ann(mv, 0, out, None)
    return out


def _ann(mv, pos, out, parent):
    """annotate the object starting at pos; returns the position after it"""
    c = mv[pos]
    out[pos] = (parent, 'elems') if parent is not None else (None, 'code')
    pos += 1

    def span(n, phase):
        for i in range(pos, pos + n):
            out[i] = (c, phase)
    if c <= 0x7f or c >= 0xe0 or c in (0xc0, 0xc2, 0xc3):
        return pos
    if 0x80 <= c <= 0x8f or 0x90 <= c <= 0x9f or c in (0xdc, 0xdd, 0xde, 0xdf):
        if c in (0xdc, 0xde):
            w = 2
        elif c in (0xdd, 0xdf):
            w = 4
        else:
            w = 0
        if w:
            n = int.from_bytes(mv[pos:pos + w], 'big')
            span(w, 'len')
            pos += w
        else:
            n = c & 0x0f
        if (0x80 <= c <= 0x8f) or c in (0xde, 0xdf):
            n *= 2
        for _ in range(n):
            pos = _ann(mv, pos, out, c)
        return pos
    if 0xa0 <= c <= 0xbf:
        n = c & 0x1f
        span(n, 'body')
        return pos + n
    if c in (0xc4, 0xc5, 0xc6, 0xd9, 0xda, 0xdb):
        w = {0xc4: 1, 0xc5: 2, 0xc6: 4, 0xd9: 1, 0xda: 2, 0xdb: 4}[c]
        n = int.from_bytes(mv[pos:pos + w], 'big')
        span(w, 'len')
        pos += w
        span(n, 'body')
        return pos + n
    if c in (0xc7, 0xc8, 0xc9):
        w = {0xc7: 1, 0xc8: 2, 0xc9: 4}[c]
        n = int.from_bytes(mv[pos:pos + w], 'big')
        span(w, 'len')
        pos += w
        span(1, 'exttype')
        pos += 1
        span(n, 'body')
        return pos + n
    if c == 0xca:
        span(4, 'body')
        return pos + 4
    if c == 0xcb:
        span(8, 'body')
        return pos + 8
    if 0xcc <= c <= 0xcf:
        w = 1 << (c - 0xcc)
        span(w, 'body')
        return pos + w
    if 0xd0 <= c <= 0xd3:
        w = 1 << (c - 0xd0)
        span(w, 'body')
        return pos + w
    if 0xd4 <= c <= 0xd8:
        n = 1 << (c - 0xd4)
        span(1, 'exttype')
        pos += 1
        span(n, 'body')
        return pos + n
    raise Invalid('0x%02x' % c)


def one_byte_complete(c):
    """Is the single byte c a complete MessagePack object, per the format table of the spec?"""
    return (c <= 0x7f or c >= 0xe0 or c in (0x80, 0x90, 0xa0, 0xc0, 0xc2, 0xc3))


# ---------------------------------------------------------------- value comparison

def same(a, b):
    """Type-strict equality of two model values (umsgpack.Ext and RExt are matched by duck type)."""
    if a is None or b is None:
        return a is None and b is None
    if isinstance(a, bool) or isinstance(b, bool):
        return isinstance(a, bool) and isinstance(b, bool) and a == b
    if isinstance(a, int) or isinstance(b, int):
        return isinstance(a, int) and isinstance(b, int) and a == b
    if isinstance(a, float) or isinstance(b, float):
        return isinstance(a, float) and isinstance(b, float) and struct.pack('>d', a) == struct.pack('>d', b)
    if isinstance(a, str) or isinstance(b, str):
        return isinstance(a, str) and isinstance(b, str) and a == b
    if isinstance(a, (bytes, bytearray)) or isinstance(b, (bytes, bytearray)):
        return isinstance(a, (bytes, bytearray)) and isinstance(b, (bytes, bytearray)) and bytes(a) == bytes(b)
    if isinstance(a, list) or isinstance(b, list):
        return (isinstance(a, list) and isinstance(b, list) and len(a) == len(b) and
                all(same(x, y) for x, y in zip(a, b)))
    if isinstance(a, dict) or isinstance(b, dict):
        if not (isinstance(a, dict) and isinstance(b, dict) and len(a) == len(b)):
            return False
        kb = {(type(k).__name__, k): v for k, v in b.items()}
        for k, v in a.items():
            kk = (type(k).__name__, k)
            if kk not in kb or not same(v, kb[kk]):
                return False
        return True
    if hasattr(a, 'type') and hasattr(a, 'data') and hasattr(b, 'type') and hasattr(b, 'data'):
        return a.type == b.type and bytes(a.data) == bytes(b.data)
    return False
