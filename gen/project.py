"""Project generator shared by the C04-B, C09, C15 and C17 engines.

A project is a DAG of 3-6 modules in 1-2 packages.  Every module has a stable *interface* (names of its
classes, functions, instances - fixed when the module is created, so importers stay valid across rewrites)
and *versioned* leaves: class attributes, instance attributes and extra variables carry the module name and
its version (ca_zqb_v3_0), so that every name in an answer is attributable to one version of one file.

Everything is plain JSON-able data: a module is {'name', 'version', 'iface', 'items'}, an item is a list.
All generated programs are valid and importable (checked by tools/gencheck.py by really importing them)."""
import os

MODNAMES = ['zqa', 'zqb', 'zqc', 'zqp.zqd', 'zqp.zqe', 'zqp.zqs.zqf']
PKG_INITS = {'zqp.zqd': ['zqp'], 'zqp.zqe': ['zqp'], 'zqp.zqs.zqf': ['zqp', 'zqp.zqs']}


def short(modname):
    return modname.rpartition('.')[2]


def is_pkg(name, spec):
    return any(m['name'].startswith(name + '.') for m in spec['modules'])


# ---------------------------------------------------------------- generation

def gen_project(rng, nmods=None, rich=True):
    nmods = nmods or rng.choice((3, 4, 4, 5, 6))
    names = MODNAMES[:3] + rng.sample(MODNAMES[3:], min(3, max(0, nmods - 3)))
    names = names[:nmods]
    rng.shuffle(names)
    mods = []
    if rng.random() < 0.3:
        # a package nothing imports from directly (only optional sub-modules of it are asked for, and may appear later)
        mods.append({'name': 'zqlone', 'version': 1, 'iface': {'classes': [], 'funcs': [], 'insts': [], 'multis': [], 'attrs': []},
                     'items': [], 'init': True})
    for nm in names:
        for pk in PKG_INITS.get(nm, []):
            if not any(m['name'] == pk for m in mods):
                # a package may define an attribute under a name that a later created sub-module can take
                attrs = ['zqattr_' + short(pk)] if rng.random() < 0.5 else []
                mods.append({'name': pk, 'version': 1,
                             'iface': {'classes': [], 'funcs': [], 'insts': [], 'multis': [], 'attrs': attrs},
                             'items': [['assign', a, repr('attribute ' + a)] for a in attrs], 'init': True})
        mods.append(new_module(rng, nm, mods))
    # package __init__ files may re-export from their own sub-modules (only ones that import nothing from the package)
    spec = {'modules': mods}
    return spec


def new_module(rng, name, earlier):
    s = short(name)
    iface = {
        'classes': ['K%d_%s' % (i, s) for i in range(rng.choice((1, 1, 2)))],
        'funcs': ['f%d_%s' % (i, s) for i in range(rng.choice((0, 1, 2)))],
        'insts': ['i%d_%s' % (i, s) for i in range(rng.choice((0, 1, 1)))],
        'multis': ['m%d_%s' % (i, s) for i in range(rng.choice((0, 0, 1)))],
        # a pair of functions that call each other (evaluation cycles through a multiply-bound name)
        'cyc': ['g0_' + s, 'g1_' + s] if rng.random() < 0.4 else [],
    }
    mod = {'name': name, 'version': 0, 'iface': iface, 'items': []}
    return fill_module(rng, mod, earlier)


def fill_module(rng, mod, earlier):
    """(Re)generate the items of `mod` for version+1.  `earlier`: modules it may import from."""
    mod = dict(mod, version=mod['version'] + 1)
    s = short(mod['name'])
    v = mod['version']
    tag = '%s_v%d' % (s, v)
    items = []
    avail = []          # expressions usable as base classes / constructors: (expr, kind)
    cands = [m for m in earlier if not m.get('init') and (m['iface']['classes'] or m['iface']['funcs'])]
    rng.shuffle(cands)
    same_pkg = [m for m in cands if m['name'].rpartition('.')[0] == mod['name'].rpartition('.')[0]
                and '.' in mod['name']]
    parent_pkg = mod['name'].rpartition('.')[0].rpartition('.')[0]
    up_pkg = [m for m in cands if parent_pkg and m['name'].rpartition('.')[0] == parent_pkg]
    for m in cands[:rng.choice((0, 1, 1, 2, 3))]:
        style = rng.choice(('import', 'from', 'star', 'from', 'fromas', 'rel' if m in same_pkg else 'import'))
        if m in up_pkg and rng.random() < 0.7:
            style = "rel2"
        ms = short(m['name'])
        if style == 'import':
            if '.' in m['name'] and rng.random() < 0.5:
                alias = 'q_' + ms
                items.append(['import', m['name'], alias])
                prefix = alias + '.'
            else:
                items.append(['import', m['name'], None])
                prefix = m['name'] + '.'
            for k in m['iface']['classes']:
                avail.append((prefix + k, 'class'))
            for f in m['iface']['funcs']:
                avail.append((prefix + f, 'func'))
        elif style in ('from', 'fromas', 'rel', 'rel2'):
            pool = m['iface']['classes'] + m['iface']['funcs'] + m['iface']['insts'] + m['iface']['multis']
            picks = rng.sample(pool, min(len(pool), rng.choice((1, 1, 2))))
            target = m['name'] if style not in ('rel', 'rel2') else ('.' if style == 'rel' else '..') + ms
            for p in picks:
                asname = ('r_' + p) if style == 'fromas' else None
                items.append(['from', target, p, asname])
                kind = 'class' if p in m['iface']['classes'] else 'func' if p in m['iface']['funcs'] else 'other'
                avail.append((asname or p, kind))
        else:
            items.append(['star', m['name']])
            for k in m['iface']['classes']:
                avail.append((k, 'class'))
            for f in m['iface']['funcs']:
                avail.append((f, 'func'))
    if rng.random() < 0.25:
        # optional dependency that may or may not exist (created later in C09 histories)
        items.append(['tryimport', 'zqlate_' + s])
    attr_pkgs = [m for m in earlier if m.get('init') and m['iface'].get('attrs')
                 # (a package that re-exports from this very module must not be imported by it: circular import)
                 and not any(it[0] == 'from' and it[1] == '.' + s for it in m['items'])]
    if attr_pkgs and rng.random() < 0.4:
        pk = rng.choice(attr_pkgs)
        items.append(['from', pk['name'], rng.choice(pk['iface']['attrs']), None])
    pkgs = [m['name'] for m in earlier if m.get('init')
            and not any(it[0] == 'from' and it[1] == '.' + s for it in m['items'])]
    if pkgs and rng.random() < 0.25:
        # optional sub-module of an existing package, imported as an attribute of the package
        pk = rng.choice(pkgs)
        items.append(['tryfrom', pk, 'zqlsub_' + s])
        if mod['name'].startswith(pk + '.') and rng.random() < 0.6:
            items[-1].append('rel')         # written as a relative import from inside the package
    if pkgs and rng.random() < 0.2:
        # optional sub-module imported by its full name: the package itself is not loaded by this statement
        pk = 'zqlone' if 'zqlone' in pkgs and rng.random() < 0.8 else rng.choice(pkgs)
        items.append(['tryfromsub', pk, 'zqlsub_x' + s, 'KL_zqlsub_x' + s])
        if mod['name'].startswith(pk + '.') and rng.random() < 0.6:
            items[-1].append('rel')
    classes_here = []
    for i, k in enumerate(mod['iface']['classes']):
        bases = []
        pool = [e for e, kind in avail if kind == 'class'] + classes_here
        if pool and rng.random() < 0.6:
            bases.append(rng.choice(pool))
        cattrs = ['ca_%s_%d_%d' % (tag, i, j) for j in range(rng.choice((1, 2)))]
        methods = []
        all_ctors = list(mod['iface']['classes']) + [e for e, kind in avail if kind == 'class']
        for j in range(rng.choice((1, 1, 2))):
            sattrs = []
            for n in range(rng.choice((0, 1, 2))):
                a = 'sa_%s_%d_%d%d' % (tag, i, j, n)
                x = rng.random()
                if x < 0.25:
                    sattrs.append([a, rng.choice(all_ctors) + '()'])       # instance of (maybe) another class
                elif x < 0.35 and mod['iface'].get('cyc'):
                    sattrs.append([a, rng.choice(mod['iface']['cyc']) + '()'])
                else:
                    sattrs.append(a)
            methods.append(['me_%s_%d_%d' % (s, i, j), sattrs])
        if rng.random() < 0.7:
            # an instance attribute under one name in every class (base classes and subclasses both assign it),
            # sometimes from a local that is bound on two flows
            if rng.random() < 0.5 and len(all_ctors) >= 1:
                alt = rng.choice([c + '()' for c in all_ctors] + ["'s'"])
                methods.append(['setsz', [['sz', 'zv']], 'self', ['zv', rng.choice(all_ctors) + '()', alt]])
            else:
                methods.append(['setsz', [['sz', rng.choice([c + '()' for c in all_ctors] + ["'sz_%s'" % tag])]], 'self'])
        if rng.random() < 0.6:
            # chains and cycles between classes: K0().nxt() is a K1, K1().nxt() is a K0 ...
            methods.append(['nxt', [], rng.choice(all_ctors) + '()'])
        if bases and rng.random() < 0.6:
            # the usual way to reach the base class
            methods.append(['up', [['zsup', 'super()']], 'super().common()'])
        # every class also has an attribute and a method under a name shared by all classes, so that "which
        # alternative answers" is observable when a name may be an instance of several classes
        cattrs.append('shared')
        cattrs.append('Shared')             # differs from `shared` only in case
        methods.append(['common', []])
        items.append(['class', k, bases, cattrs, methods])
        classes_here.append(k)
    ctor_pool = classes_here + [e for e, kind in avail if kind == 'class']
    for i, f in enumerate(mod['iface']['funcs']):
        r = rng.random()
        if ctor_pool and r < 0.6:
            ret = rng.choice(ctor_pool) + '()'
        elif r < 0.8 and [e for e, kind in avail if kind == 'func']:
            ret = rng.choice([e for e, kind in avail if kind == 'func']) + '()'
        else:
            ret = repr('s_%s' % tag)
        items.append(['func', f, ret])
    if ctor_pool and rng.random() < 0.5:
        # a function whose result is a loop-carried, multiply-bound name
        a, b = rng.choice(ctor_pool), rng.choice(ctor_pool)
        items.append(['lfunc', 'l0_' + s, a + '()', b + '()', rng.choice(('for', 'while'))])
    cyc = mod['iface'].get('cyc') or []
    for i, f in enumerate(cyc):
        other = cyc[(i + 1) % len(cyc)]
        base = (rng.choice(ctor_pool) + '()') if ctor_pool else repr('c_%s' % tag)
        items.append(['cfunc', f, other, base])
    funcs_here = list(mod['iface']['funcs'])
    for i, n in enumerate(mod['iface']['insts']):
        if funcs_here and rng.random() < 0.4:
            items.append(['assign', n, rng.choice(funcs_here) + '()'])
        elif ctor_pool:
            items.append(['assign', n, rng.choice(ctor_pool) + '()'])
        else:
            items.append(['assign', n, '0'])
    for i, n in enumerate(mod['iface']['multis']):
        alts = []
        for j in range(rng.choice((2, 3, 4))):
            r = rng.random()
            if ctor_pool and r < 0.5:
                alts.append(rng.choice(ctor_pool) + '()')
            elif r < 0.7:
                alts.append(repr('alt%d_%s' % (j, tag)))
            else:
                alts.append(str(j))
        items.append(['multi', n, alts])
    for j in range(rng.choice((1, 1, 2))):
        items.append(['assign', 'x_%s_%d' % (tag, j), str(v * 10 + j)])
    mod['items'] = items
    return mod


# ---------------------------------------------------------------- rendering

def _spelled(mod, pkg, flags, dotted=False):
    """The package as written in the import statement: absolute, or relative from a module inside it."""
    if 'rel' in flags and mod['name'].startswith(pkg + '.'):
        here = mod['name'] if mod.get('init') else mod['name'].rpartition('.')[0]
        return '.' * (1 + here.count('.') - pkg.count('.'))
    return pkg + ('.' if dotted else '')


def render(mod):
    out = ['# module %s version %d' % (mod['name'], mod['version'])]
    for it in mod['items']:
        k = it[0]
        if k == 'import':
            out.append('import %s%s' % (it[1], (' as ' + it[2]) if it[2] else ''))
        elif k == 'from':
            out.append('from %s import %s%s' % (it[1], it[2], (' as ' + it[3]) if it[3] else ''))
        elif k == 'star':
            out.append('from %s import *' % it[1])
        elif k == 'tryimport':
            out.append('try:')
            out.append('    import %s' % it[1])
            out.append('except ImportError:')
            out.append('    %s = None' % it[1])
        elif k == 'tryfrom':
            out.append('try:')
            out.append('    from %s import %s' % (_spelled(mod, it[1], it[3:]), it[2]))
            out.append('except ImportError:')
            out.append('    %s = None' % it[2])
        elif k == 'tryfromsub':
            out.append('try:')
            out.append('    from %s%s import %s' % (_spelled(mod, it[1], it[4:], True), it[2], it[3]))
            out.append('except ImportError:')
            out.append('    %s = None' % it[3])
        elif k == 'class':
            out.append('class %s(%s):' % (it[1], ', '.join(it[2])) if it[2] else 'class %s(object):' % it[1])
            for a in it[3]:
                out.append('    %s = %r' % (a, a if a.lower() != 'shared' else 'shared by ' + it[1]))
            for meth in it[4]:
                mname, sattrs = meth[0], meth[1]
                out.append('    def %s(self):' % mname)
                if len(meth) > 3:
                    # a local bound on two flows: [name, value if, value else]
                    out.append('        if self:')
                    out.append('            %s = %s' % (meth[3][0], meth[3][1]))
                    out.append('        else:')
                    out.append('            %s = %s' % (meth[3][0], meth[3][2]))
                for a in sattrs:
                    if isinstance(a, list):
                        out.append('        self.%s = %s' % (a[0], a[1]))
                    else:
                        out.append('        self.%s = %r' % (a, a))
                out.append('        return %s' % (meth[2] if len(meth) > 2 else 'self'))
            out.append('')
        elif k == 'lfunc':
            out.append("def %s(xs=()):" % it[1])
            out.append('    h = None')
            out.append('    for x in xs:' if it[4] == 'for' else '    while xs:')
            out.append('        if x:' if it[4] == 'for' else '        if h:')
            out.append('            h = %s' % it[2])
            out.append('        else:')
            out.append('            return h')
            out.append('        xs = xs[1:]')
            out.append('    else:')
            out.append('        h = %s' % it[3])
            out.append('    h.closed = True')
            out.append('    return h')
            out.append('')
        elif k == 'cfunc':
            out.append("def %s(s=''):" % it[1])
            out.append('    if s:')
            out.append('        r = %s(s[1:])' % it[2])
            out.append('    else:')
            out.append('        r = %s' % it[3])
            out.append('    return r')
            out.append('')
        elif k == 'func':
            out.append('def %s():' % it[1])
            out.append('    return %s' % it[2])
            out.append('')
        elif k == 'assign':
            out.append('%s = %s' % (it[1], it[2]))
        elif k == 'multi':
            alts = it[2]
            for j, a in enumerate(alts):
                if j == 0:
                    out.append('if len(__name__) == %d:' % (100 + j))
                elif j < len(alts) - 1:
                    out.append('elif len(__name__) == %d:' % (100 + j))
                else:
                    out.append('else:')
                out.append('    %s = %s' % (it[1], a))
        elif k == 'raw':
            out.extend(it[1])
        else:
            raise ValueError(it)
    return '\n'.join(out) + '\n'


def relpath(mod, spec=None):
    parts = mod['name'].split('.')
    if mod.get('init'):
        return os.path.join(*(parts + ['__init__.py']))
    return os.path.join(*parts) + '.py'


def write_module(root, mod, mtime_ns=None):
    path = os.path.join(root, relpath(mod))
    os.makedirs(os.path.dirname(path), exist_ok=True)
    with open(path, 'w') as f:
        f.write(render(mod))
    if mtime_ns is not None:
        os.utime(path, ns=(mtime_ns, mtime_ns))
    return path


def write_project(root, spec, mtime_ns=None):
    for m in spec['modules']:
        write_module(root, m, mtime_ns)


# ---------------------------------------------------------------- exported names (approximate, for request generation)

def _absolute(modname, target):
    """Resolve a relative import target ('.x', '..x', '..') seen from module `modname`."""
    if not target.startswith('.'):
        return target
    level = len(target) - len(target.lstrip('.'))
    base = modname.split('.')[:-1]
    if level > 1:
        base = base[:len(base) - (level - 1)]
    rest = target.lstrip('.')
    return '.'.join(base + ([rest] if rest else []))


def origins(spec):
    """module name -> {exported name: module in which the name is really defined}."""
    out = {}
    for m in spec['modules']:
        o = {}
        for it in m['items']:
            k = it[0]
            if k == 'from':
                tgt = _absolute(m['name'], it[1])
                if it[2].startswith('zqattr_'):
                    # an attribute of a package that a sub-module of the same name may take over
                    o[it[3] or it[2]] = tgt + '.' + it[2]
                else:
                    o[it[3] or it[2]] = out.get(tgt, {}).get(it[2], tgt)
            elif k == 'star':
                for n, src in out.get(it[1], {}).items():
                    if not n.startswith('_'):
                        o[n] = src
            elif k == 'import':
                o[it[2] or it[1].partition('.')[0]] = it[1]
            elif k == 'tryimport':
                o[it[1]] = it[1]
            elif k == 'tryfrom':
                o[it[2]] = it[1] + '.' + it[2]
            elif k == 'tryfromsub':
                o[it[3]] = it[1] + '.' + it[2]
            elif k in ('class', 'func', 'cfunc', 'lfunc', 'assign', 'multi'):
                o[it[1]] = m['name']
        out[m['name']] = o
    return out


def exports(spec):
    """module name -> list of (name, kind); kind in module/class/func/inst/multi/var.  Follows from- and
    star-imports through the DAG.  Only used to aim requests at interesting places."""
    table = {}
    for m in spec['modules']:
        ex = []

        def add(name, kind):
            for i, (n, _) in enumerate(ex):
                if n == name:
                    ex[i] = (name, kind)
                    return
            ex.append((name, kind))
        for it in m['items']:
            k = it[0]
            if k == 'import':
                add(it[2] or it[1].partition('.')[0], 'module')
            elif k == 'tryimport':
                add(it[1], 'module')
            elif k == 'tryfrom':
                add(it[2], 'module')
            elif k == 'tryfromsub':
                add(it[3], 'class')
            elif k == 'from':
                tgt = _absolute(m['name'], it[1])
                kind = dict(table.get(tgt, [])).get(it[2], 'var')
                add(it[3] or it[2], kind)
            elif k == 'star':
                for n, kind in table.get(it[1], []):
                    if not n.startswith('_'):
                        add(n, kind)
            elif k == 'class':
                add(it[1], 'class')
            elif k in ('func', 'cfunc', 'lfunc'):
                add(it[1], 'func')
            elif k == 'assign':
                add(it[1], 'inst' if it[2].endswith('()') else 'var')
            elif k == 'multi':
                add(it[1], 'multi')
        table[m['name']] = ex
    return table


# ---------------------------------------------------------------- requests

def _pos_after(source):
    """(line, col) of the end of `source` (1-based line, 0-based column)."""
    lines = source.split('\n')
    return [len(lines), len(lines[-1])]


def gen_request(rng, spec, kinds=('assist', 'location', 'lint'), uid=None, target=None, origin=None):
    """One request {kind, source, position, file} that reaches project modules through imports.
    `file` is relative to the project root.  `uid`: text made part of the source so that the request
    (and its correct reply) is unique.  `target`: module name the request should reach (default: seeded)."""
    table = exports(spec)
    mods = [m for m in spec['modules'] if table.get(m['name'])]
    m = None
    if target is not None:
        m = next((x for x in mods if x['name'] == target), None)
    if m is None:
        m = rng.choice(mods)
    mname = m['name']
    ex = table[mname]
    name, nkind = rng.choice(ex)
    indirect = False
    if origin is not None:
        # aim at a name that is defined in module `origin` but reached through another, importing module
        org = origins(spec)
        cands = [(x['name'], n) for x in mods for n, src in org.get(x['name'], {}).items()
                 if src == origin and x['name'] != origin]
        if cands and rng.random() < 0.8:
            indirect = True
            mname, name = rng.choice(cands)
            m = next(x for x in mods if x['name'] == mname)
            ex = table[mname]
            nkind = dict(ex).get(name, 'var')
    kind = rng.choice(kinds)
    filename = 'zqmain.py'
    head = []
    if uid:
        head.append('%s = %r' % (uid, uid))
    # how the request source reaches the module
    via = rng.choice(('import', 'from', 'star', 'import', 'from', 'rel'))
    pkg = mname.rpartition('.')[0]
    if via == 'rel' and not pkg:
        via = 'from'
    if via == 'rel':
        # the buffer lives in the target's package or in a sub-package of it (then the import climbs with '..')
        below = sorted(x['name'] for x in spec['modules'] if x.get('init') and x['name'].startswith(pkg + '.'))
        home = rng.choice([pkg] + below) if below and rng.random() < 0.6 else pkg
        dots = '.' * (1 + home.count('.') - pkg.count('.'))
        filename = os.path.join(*(home.split('.') + ['zqmain_rel.py']))
        if rng.random() < 0.5:
            head.append('from %s import %s' % (dots, short(mname)))
            ref = short(mname) + '.' + name
            modref = short(mname)
        else:
            head.append('from %s%s import %s' % (dots, short(mname), name))
            ref = name
            modref = None
        if home != pkg and rng.random() < 0.5:
            # and a second relative import at another level in the same buffer
            sib = [x['name'] for x in spec['modules'] if not x.get('init') and x['name'].rpartition('.')[0] == home]
            if sib:
                head.insert(len(head) - 1, 'from . import %s' % short(rng.choice(sib)))
    elif via == 'import':
        head.append('import %s' % mname)
        ref = mname + '.' + name
        modref = mname
    elif via == 'from':
        head.append('from %s import %s' % (mname, name))
        ref = name
        modref = None
    else:
        head.append('from %s import *' % mname)
        ref = name
        modref = None

    if rng.random() < 0.3:
        # the buffer imports other project modules as well (several importers analysed in one request)
        others = [x['name'] for x in mods if x['name'] != mname]
        rng.shuffle(others)
        for o in others[:rng.choice((1, 2, 3))]:
            head.insert(len(head) - 1, rng.choice(('import %s', 'from %s import *')) % o)
    if rng.random() < 0.03 and filename == 'zqmain.py':
        head.insert(len(head) - 1, 'from . import %s' % short(mname))      # relative import outside a package
    if kind == 'assist':
        shape = rng.choice(('attr', 'attr', 'call', 'module', 'name', 'import', 'inherit', 'deep', 'chain', 'chain', 'selfattr'))
        if shape == 'selfattr' and nkind in ('class', 'func', 'inst', 'multi'):
            tail = ref + ('()' if nkind in ('class', 'func') else '') + '.sz.'
        elif shape == 'chain' and nkind in ('class', 'func', 'inst', 'multi'):
            tail = ref + ('()' if nkind in ('class', 'func') else '') + '.nxt()' * rng.choice((1, 2, 3)) + '.'
        elif shape == 'module' and modref:
            tail = modref + '.'
        elif shape == 'call' and nkind in ('class', 'func'):
            tail = ref + '().'
        elif shape == 'name':
            tail = name[:2]
        elif shape == 'import':
            head = head[:1] if uid else []
            tail = 'from %s import %s' % (mname, name[:rng.choice((0, 1, 3))])
        elif shape == 'inherit' and nkind == 'class':
            head.append('class Zlocal(%s):' % ref)
            head.append('    def zmeth(self):')
            head.append('        self.zown = 1')
            tail = 'Zlocal().'
        elif shape == 'deep' and nkind in ('class', 'func', 'inst'):
            head.append('zv = %s%s' % (ref, '()' if nkind != 'inst' else ''))
            head.append('zw = zv')
            tail = 'zw.'
        else:
            tail = ref + '.'
        source = '\n'.join(head + [tail])
        pos = _pos_after(source)
        source += '\n'
    elif kind == 'location':
        shape = rng.choice(('ref', 'ref', 'attr', 'import', 'chain'))
        if shape == 'chain' and nkind in ('class', 'func', 'inst', 'multi'):
            attr = rng.choice(('shared', 'common', 'nxt'))
            tail = 'zr = ' + ref + ('()' if nkind in ('class', 'func') else '') + '.nxt()' * rng.choice((0, 1, 2)) + '.' + attr
            source = '\n'.join(head + [tail])
            pos = _pos_after(source)
            pos[1] -= rng.randrange(0, len(attr))
            source += '\nzs = zr\n'
        elif shape == 'import':
            tail = 'from %s import %s' % (mname, name)
            head = head[:1] if uid else []
            source = '\n'.join(head + [tail])
            pos = _pos_after(source)
            pos[1] -= rng.randrange(0, len(name))
            source += '\n'
        elif shape == 'attr' and nkind == 'class':
            attrs = [a for it in m['items'] if it[0] == 'class' and it[1] == name for a in it[3]]
            attr = rng.choice(attrs) if attrs else 'missing'
            tail = 'zr = %s.%s' % (ref, attr)
            source = '\n'.join(head + [tail])
            pos = _pos_after(source)
            pos[1] -= rng.randrange(0, len(attr))
            source += '\nzs = zr\n'
        else:
            tail = 'zr = ' + ref
            source = '\n'.join(head + [tail])
            pos = _pos_after(source)
            pos[1] -= rng.randrange(0, len(name))
            source += '\nzs = zr\n'
    else:
        body = list(head)
        body.append('def zuse(zarg, zunused):')
        body.append('    zlocal = %s' % ref)
        body.append('    return zarg, %s' % (rng.choice([n for n, _ in ex])
                                             if via == 'star' else 'zlocal'))
        body.append('zundefined_%s' % (uid or 'q'))
        if rng.random() < 0.5:
            body.append('import os')
        source = '\n'.join(body) + '\n'
        pos = None
    return {'kind': kind, 'source': source, 'position': pos, 'file': filename, 'indirect': indirect}


def mutate_module(rng, spec, idx):
    """New version of module idx (same interface, new versioned leaves, possibly other imports)."""
    mods = spec['modules']
    m = mods[idx]
    if m.get('init'):
        nm = dict(m, version=m['version'] + 1)
        subs = [x for x in mods if x['name'].startswith(m['name'] + '.') and not x.get('init')
                and x['name'].count('.') == m['name'].count('.') + 1]
        items = []
        # a package __init__ re-exports from sub-modules that do not import from the package themselves
        for x in subs:
            if rng.random() < 0.5 and x['iface']['classes'] and not any(
                    it[0] in ('import', 'from', 'star') for it in x['items']):
                items.append(['from', '.' + short(x['name']), rng.choice(x['iface']['classes']), None])
        items.append(['assign', 'x_%s_v%d' % (short(m['name']), nm['version']), str(nm['version'])])
        for a in m['iface'].get('attrs') or []:
            items.append(['assign', a, repr('attribute %s v%d' % (a, nm['version']))])
        nm['items'] = items
        return nm
    return fill_module(rng, m, mods[:idx])


def cycle_requests(rng, spec):
    """Requests aimed at the evaluation cycles of a project: both functions of every mutually recursive pair,
    and nxt() chains starting at every class - the places where a memo filled during a cycle would show."""
    out = []
    for m in spec['modules']:
        mn = m['name']
        for g in m['iface'].get('cyc') or []:
            src = 'import %s\nzr = %s.%s().\n' % (mn, mn, g)
            out.append({'kind': 'assist', 'source': src, 'position': [2, len(src.split('\n')[1])], 'file': 'zqmain.py'})
            src = 'from %s import %s\nzr = %s().shared\n' % (mn, g, g)
            out.append({'kind': 'location', 'source': src, 'position': [2, len(src.split('\n')[1]) - 2], 'file': 'zqmain.py'})
        for it in m['items']:
            if it[0] == 'lfunc':
                src = 'import %s\nzr = %s.%s([]).\n' % (mn, mn, it[1])
                out.append({'kind': 'assist', 'source': src, 'position': [2, len(src.split('\n')[1])], 'file': 'zqmain.py'})
                src = 'from %s import %s\nzr = %s([]).common\n' % (mn, it[1], it[1])
                out.append({'kind': 'location', 'source': src, 'position': [2, len(src.split('\n')[1]) - 2], 'file': 'zqmain.py'})
            if it[0] == 'class' and any(me[0] == 'setsz' for me in it[4]):
                # through an instance attribute that base classes and subclasses both assign
                src = 'import %s\nzr = %s.%s().sz.\n' % (mn, mn, it[1])
                out.append({'kind': 'assist', 'source': src, 'position': [2, len(src.split('\n')[1])], 'file': 'zqmain.py'})
                src = 'from %s import %s\nzr = %s().sz\n' % (mn, it[1], it[1])
                out.append({'kind': 'location', 'source': src, 'position': [2, len(src.split('\n')[1]) - 1], 'file': 'zqmain.py'})
            if it[0] == 'class' and any(me[0] == 'nxt' for me in it[4]):
                n = rng.choice((1, 2, 3))
                src = 'import %s\nzr = %s.%s()%s.\n' % (mn, mn, it[1], '.nxt()' * n)
                out.append({'kind': 'assist', 'source': src, 'position': [2, len(src.split('\n')[1])], 'file': 'zqmain.py'})
    rng.shuffle(out)
    return out


def relative_requests(rng, spec):
    """Requests issued from one and the same buffer inside the deepest package, importing relatively at different
    levels (from . / from .. / from ...): what one level resolves to must not depend on which was asked before."""
    pkgs = sorted((m['name'] for m in spec['modules'] if m.get('init')), key=lambda n: -n.count('.'))
    out = []
    if not pkgs:
        return out
    home = pkgs[0]
    fname = os.path.join(*(home.split('.') + ['zqmain_rel.py']))
    parts = home.split('.')
    for up in range(len(parts)):
        pkg = '.'.join(parts[:len(parts) - up])
        dots = '.' * (up + 1)
        mods = [m for m in spec['modules'] if not m.get('init') and m['name'].rpartition('.')[0] == pkg]
        for m in mods[:2]:
            sm = short(m['name'])
            src = 'from %s import %s\n%s.\n' % (dots, sm, sm)
            out.append({'kind': 'assist', 'source': src, 'position': [2, len(sm) + 1], 'file': fname})
            names = m['iface']['classes'] + m['iface']['funcs']
            if names:
                n = rng.choice(names)
                src = 'from %s%s import %s\nzr = %s\n' % (dots, sm, n, n)
                out.append({'kind': 'location', 'source': src, 'position': [2, 5 + len(n)], 'file': fname})
    # the same from a buffer that is not in a package at all (every such request fails, and fails the same way)
    tops = [m for m in spec['modules'] if not m.get('init') and '.' not in m['name']]
    for m in tops[:2]:
        sm = m['name']
        src = 'from . import %s\n%s.\n' % (sm, sm)
        out.append({'kind': 'assist', 'source': src, 'position': [2, len(sm) + 1], 'file': 'zqmain.py'})
        out.append({'kind': 'assist', 'source': 'from .%s import \n' % sm, 'position': [1, len(sm) + 14], 'file': 'zqmain.py'})
    rng.shuffle(out)
    return out
