"""MessagePack model values: JSON-able specs (for replay files), builders and generators."""
import struct

from .refcodec import RExt

CHARS = ['a', 'z', '0', ' ', '\n', '\r', '\x00', '\x7f', '\x85', '\xe9', '\u20ac', '\U0001f600', '\ud7ff', '\ue000',
         '\ufeff', '\ufffe', '\uffff', '\u2028', '\U0010ffff']     # incl. BOM, non-characters, line separators


def build(spec):
    """spec -> model value (lists, dicts, RExt)."""
    if spec is None or spec is True or spec is False:
        return spec
    if isinstance(spec, int):
        return spec
    if isinstance(spec, list):
        return [build(x) for x in spec]
    (k, a), = spec.items()
    if k == 'f':
        return struct.unpack('>d', bytes.fromhex(a))[0]
    if k == 's':
        return a
    if k == 'S':
        unit, n = a
        return (unit * (n // len(unit) + 1))[:n]
    if k == 'b':
        return bytes.fromhex(a)
    if k == 'B':
        return bytes([a[0]]) * a[1]
    if k == 'A':
        return [build(a[0]) for _ in range(a[1])]
    if k == 'R':
        # the very same object referenced several times (an acyclic value all the same)
        x = build(a[0])
        return [x] * a[1]
    if k == 'Rm':
        x = build(a[0])
        return {i: x for i in range(a[1])}
    if k == 't':
        return tuple(build(x) for x in a)       # an array used as a map key
    if k == 'm':
        return {build(kk): build(vv) for kk, vv in a}
    if k == 'M':
        return {i: None for i in range(a)}
    if k == 'e':
        return RExt(a[0], bytes.fromhex(a[1]))
    if k == 'E':
        return RExt(a[0], bytes([a[1]]) * a[2])
    if k == 'X':
        # something the codec must refuse: an out-of-range integer or an object of an unsupported type
        if a == 'obj':
            return object()
        if a == 'set':
            return {1, 2}
        return int(a[4:])
    raise ValueError(spec)


def to_u(v, umsgpack, memo=None):
    """model value -> the value handed to umsgpack (RExt -> umsgpack.Ext).  Objects shared inside the model value
    are shared in the result too."""
    if memo is None:
        memo = {}
    if isinstance(v, (list, dict)):
        if id(v) in memo:
            return memo[id(v)]
        if isinstance(v, list):
            out = memo[id(v)] = []
            out.extend(to_u(x, umsgpack, memo) for x in v)
        else:
            out = memo[id(v)] = {}
            out.update((k, to_u(x, umsgpack, memo)) for k, x in v.items())
        return out
    if isinstance(v, RExt):
        return umsgpack.Ext(v.type, v.data)
    return v


def fspec(x):
    return {'f': struct.pack('>d', x).hex()}


INT_BOUNDARIES = [2 ** 5, 2 ** 7, 2 ** 8, 2 ** 15, 2 ** 16, 2 ** 31, 2 ** 32, 2 ** 63, 2 ** 64]
LEN_BOUNDARIES = [16, 32, 256, 65536]


def boundary_ints():
    out = set()
    for b in INT_BOUNDARIES:
        for s in (1, -1):
            for d in range(-3, 4):
                out.add(s * b + d)
    out.update(range(-3, 4))
    return sorted(out)


def boundary_lens():
    out = set([0, 1, 2, 4, 8])
    for b in LEN_BOUNDARIES:
        for d in range(-3, 3):   # 15/16 means lengths 13..18: within 2 of both 15 and 16
            out.add(b + d)
    return sorted(out)


BIG_LENS = [2 ** 20 - 1, 2 ** 20, 2 ** 20 + 1, 2 * 2 ** 20 + 3, 3 * 2 ** 20 + 7]


def big_specs(n):
    return [('str', {'S': ['a', n]}), ('str-mb', {'S': ['\u20aca', n // 2]}), ('bin', {'B': [0xc1, n]}), ('ext', {'E': [5, 0x90, n]})]


def len_specs(n):
    """One spec per container/string family, all of length n."""
    out = [
        ('str', {'S': ['a', n]}),
        ('str-mb', {'S': ['éa', n]}),      # byte length differs from character count
        ('str-bom', {'S': ['\ufeffa', n]}),   # starts with U+FEFF: an ordinary code point of a str
        ('bin', {'B': [0xc1, n]}),
        ('ext', {'E': [5, 0x90, n]}),
        ('array', {'A': [None, n]}),
        ('array-int', {'A': [200, n]}),
        ('map', {'M': n}),
    ]
    return out


SPECIAL_FLOATS = [0.0, -0.0, 1.0, -1.5, 1e300, -1e-300, 5e-324, float('inf'), float('-inf'), float('nan'),
                  struct.unpack('>d', bytes.fromhex('7ff8000000000001'))[0],
                  struct.unpack('>d', bytes.fromhex('fff0000000000001'))[0],
                  3.4028234663852886e+38, 1.401298464324817e-45, 0.1, 16777217.0]


def _f32(x):
    return struct.unpack('>f', struct.pack('>f', x))[0]


def shapes():
    """Values whose shape (not size) is unusual: one container object referenced from several places; the same
    word as str key and as bin key of one map; keys of every scalar type."""
    h = lambda w: w.encode('ascii').hex()
    out = []
    for inner in ([], [1], [[2]], {'m': []}, {'m': [[{'s': 'k'}, 1]]}, {'A': [None, 16]}):
        for n in (2, 3):
            out.append({'R': [inner, n]})
            out.append({'Rm': [inner, n]})
            out.append([0, {'R': [inner, n]}, {'R': [inner, n]}])
    for w in WORDS:
        out.append({'m': [[{'b': h(w)}, 1]]})
        out.append({'m': [[{'b': h(w)}, 1], [{'s': w}, 2]]})
        out.append({'m': [[{'s': w}, 1], [{'b': h(w)}, 2]]})
        out.append([{'b': h(w)}, {'s': w}])
    out.append({'m': [[{'b': ''}, 1], [{'s': ''}, 2], [None, 3], [True, 4], [False, 5], [0, 6], [fspec(0.5), 7], [-1, 8]]})
    for key in ({'t': []}, {'t': [1]}, {'t': [1, 2]}, {'t': [{'s': 'a'}, {'t': [2, 3]}]}, {'t': [None, True, {'b': '00'}]}):
        for val in ({'s': 'abc'}, [1, [2, 3]], {'m': [[1, {'s': 'x'}]]}, {'B': [7, 40]}):
            out.append({'m': [[key, val]]})
            out.append({'m': [[{'s': 'first'}, 1], [key, val], [2, {'s': 'last'}]]})
    return out


def boundary_floats():
    """Doubles at and next to the values single precision can hold (an encoder that picks the 4-byte form for a double
    that is only close to a single loses bits), around the single-precision range limits, halfway between singles."""
    import math
    out = []
    bases = [1.0, -1.0, 0.5, _f32(0.1), _f32(1.0 / 3), _f32(math.pi), 3.4028234663852886e+38, -3.4028234663852886e+38,
             1.1754943508222875e-38, 1.401298464324817e-45, 16777216.0, 65504.0, _f32(1e10), _f32(1e-10), _f32(-2.7e20)]
    for b in bases:
        for direction in (math.inf, -math.inf):
            x = b
            for _ in range(3):
                x = math.nextafter(x, direction)
                out.append(x)
        out.append(b)
        nb = _f32(math.nextafter(b, math.inf) * (1 + 2.0 ** -23)) if abs(b) < 3e38 else b
        out.append((b + nb) / 2)           # halfway between two singles
    out += [3.5e38, -3.5e38, 1e39, 3.4028235677973366e+38, 7e-46, 2.2250738585072014e-308, 1.7976931348623157e308]
    return out


WORDS = ['a', 'name', 'sources', '_x1', 'dyn_modules']


def rand_scalar(rng, key=False):
    t = rng.randrange(8 if not key else 6)
    if t == 0:
        return None
    if t == 1:
        return rng.random() < 0.5
    if t == 2:
        kind = rng.randrange(4)
        if kind == 0:
            return rng.randrange(-40, 140)
        if kind == 1:
            b = rng.choice(INT_BOUNDARIES)
            x = rng.choice((1, -1)) * b + rng.randrange(-3, 4)
            return max(-2 ** 63, min(2 ** 64 - 1, x))
        if kind == 2:
            return rng.randrange(-2 ** 63, 2 ** 64)
        return rng.randrange(-2 ** 17, 2 ** 17)
    if t == 3:
        y = rng.random()
        if y < 0.4:
            x = rng.choice(SPECIAL_FLOATS)
        elif y < 0.6:
            # a double a few steps away from a value single precision holds exactly
            import math
            x = struct.unpack('>f', (rng.getrandbits(32) & 0xff7fffff | (rng.getrandbits(1) << 23)).to_bytes(4, 'big'))[0]
            if x == x and abs(x) != math.inf:
                for _ in range(rng.randrange(0, 3)):
                    x = math.nextafter(x, rng.choice((math.inf, -math.inf)))
        else:
            x = struct.unpack('>d', rng.getrandbits(64).to_bytes(8, 'big'))[0]
        if key and x != x:
            x = 2.5
        return fspec(x)
    if key and rng.random() < 0.06:
        # an array as map key (decoded to a tuple)
        return {'t': [rand_scalar(rng, key=True) for _ in range(rng.choice((0, 1, 2, 2, 3)))]}
    if key and t in (4, 5) and rng.random() < 0.3:
        # the same short word as a str key and as a bin key (the two are different keys)
        w = rng.choice(WORDS)
        return {'s': w} if t == 4 else {'b': w.encode('ascii').hex()}
    if t == 4:
        n = rng.choice((0, 1, 3, 15, 16, 31, 32, 33, 40, 255, 256, 300)) if rng.random() < 0.5 else rng.randrange(0, 70)
        if rng.random() < 0.6:
            return {'s': ''.join(rng.choice(CHARS) for _ in range(min(n, 80)))}
        return {'S': [rng.choice(['a', 'é', 'ab€', '\U0001f600x', '\ufeffb', '\x00a']), n]}
    if t == 5:
        n = rng.choice((0, 1, 2, 31, 32, 255, 256, 257)) if rng.random() < 0.5 else rng.randrange(0, 40)
        if rng.random() < 0.5:
            return {'b': bytes(rng.getrandbits(8) for _ in range(min(n, 48))).hex()}
        return {'B': [rng.getrandbits(8), n]}
    if t == 6:
        n = rng.choice((0, 1, 2, 3, 4, 5, 8, 15, 16, 17, 255, 256))
        return {'E': [rng.randrange(0, 128), rng.getrandbits(8), n]}
    return rng.randrange(0, 128)


def _keyid(spec):
    v = build(spec)
    if isinstance(v, float) and v == v and abs(v) < 2.0 ** 70 and v == int(v):
        return ('num', int(v))
    if isinstance(v, (bool, int)):
        return ('num', int(v))
    return (type(v).__name__, v)


def rand_value(rng, depth, budget=None):
    """Random nested value spec, nesting up to `depth`."""
    if budget is None:
        budget = [rng.choice((4, 12, 40, 120))]
    budget[0] -= 1
    if depth <= 0 or budget[0] <= 0 or rng.random() < 0.35:
        return rand_scalar(rng)
    if rng.random() < 0.08:
        return {rng.choice(('R', 'R', 'Rm')): [rand_value(rng, depth - 1, budget), rng.choice((2, 2, 3))]}
    if rng.random() < 0.55:
        n = rng.choice((0, 1, 2, 3, 5, 15, 16, 17)) if rng.random() < 0.7 else rng.randrange(0, 24)
        n = min(n, max(0, budget[0]))
        return [rand_value(rng, depth - 1, budget) for _ in range(n)]
    n = rng.choice((0, 1, 2, 3, 15, 16, 17)) if rng.random() < 0.7 else rng.randrange(0, 20)
    n = min(n, max(0, budget[0]))
    items = []
    seen = set()
    for _ in range(n):
        k = rand_scalar(rng, key=True)
        kid = _keyid(k)
        if kid in seen:
            continue
        seen.add(kid)
        items.append([k, rand_value(rng, depth - 1, budget)])
    return {'m': items}
